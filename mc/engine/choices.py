"""E2 - choice-point explorer: owns every random draw of mofun.

Seams (harness-side module attributes, no repository hook):
    mofun.mofun.random, mofun.helpers.random -> RandomShim   (choice, sample)
    mofun.helpers.np                         -> NumpyProxy   (np.random.random(n)); everything else forwarded
Stateless exploration as in iterative context bounding: run(prefix) replays the given answers (an
out-of-range answer while replaying is a hard error = divergence), answers 0 at every later point
and records the trace (kind, arity, answer); every point at or after len(prefix) is then branched
on every alternative answer, subject to a bound on the number of non-default answers.
Proof of ownership: the states of the real `random` module and of numpy's global generator are
compared before and after every execution; the empty prefix is executed twice and must give
identical observations.
"""
import itertools, math, random as _random
import numpy as _np
from mc.engine.run import HarnessError, ReplayDiffers

FIXED_VECTORS = [(0.37454012, 0.95071431, 0.73199394), (0.15601864, 0.05808361, 0.86617615), (0.60111501, 0.70807258, 0.02058449)]


def vectors(seed):
    r = _np.random.RandomState(7000 + seed)
    return [_np.array(v) for v in FIXED_VECTORS] + [r.random_sample(3)]


def nth_combination(n, r, index):
    """the index-th r-subset of range(n) in lexicographic order, without enumerating the others"""
    c = math.comb(n, r)
    if not 0 <= index < c:
        raise IndexError(index)
    result = []
    k = n
    while r:
        c, k, r = c * r // k, k - 1, r - 1
        while index >= c:
            index -= c
            c, k = c * (k - r) // k, k - 1
        result.append(n - 1 - k)
    return tuple(result)


MAX_ALTERNATIVES_PER_POINT = 64


class Divergence(HarnessError):
    pass


class Answers(tuple):
    """the answers of one execution; .trace = [(kind, arity, answer)]"""
    trace = ()


class RandomShim:
    def __init__(self, ex, permutations=False):
        self.ex = ex; self.permutations = permutations

    def choice(self, seq):
        if len(seq) == 0:
            raise IndexError('Cannot choose from an empty sequence')
        return seq[self.ex.next('choice', len(seq))]

    def sample(self, population, k):
        population = list(population)
        if not 0 <= k <= len(population):
            raise ValueError('Sample larger than population or is negative')
        n = len(population)
        if self.permutations and n <= 5:
            # random.sample returns an ordered selection: every k-permutation is a possible answer
            options = list(itertools.permutations(range(n), k))
            ans = self.ex.next('sample-ordered %d of %d' % (k, n), len(options))
            return [population[i] for i in options[ans]]
        ans = self.ex.next('sample %d of %d' % (k, n), math.comb(n, k))
        return [population[i] for i in nth_combination(n, k, ans)]

    def __getattr__(self, name):
        raise HarnessError('uncontrolled random draw: random.%s' % name)


class _NPRandom:
    def __init__(self, ex):
        self.ex = ex

    def random(self, size=None):
        if size != 3:
            raise HarnessError('uncontrolled numpy draw of size %r' % (size,))
        return self.ex.vectors[self.ex.next('vector', len(self.ex.vectors))].copy()

    def __getattr__(self, name):
        raise HarnessError('uncontrolled numpy draw: np.random.%s' % name)


class NumpyProxy:
    def __init__(self, ex):
        self.random = _NPRandom(ex)

    def __getattr__(self, name):
        return getattr(_np, name)


class Explorer:
    def __init__(self, seed=0, permutations=False):
        self.vectors = vectors(seed)
        self.rshim = RandomShim(self, permutations)
        self.npproxy = NumpyProxy(self)
        self.installed = False
        self.stats = dict(executions=0, points=0, alternatives=0, bounded_out=0, full_trees=0, trees=0, max_points=0)

    def install(self):
        import mofun.mofun as MM, mofun.helpers as MH
        MM.random = self.rshim; MH.random = self.rshim; MH.np = self.npproxy
        self.installed = True

    def next(self, kind, arity):
        i = len(self.trace)
        if i < len(self.prefix):
            ans = self.prefix[i]
            if ans >= arity:
                raise Divergence('replay diverged at point %d: answer %d for a %s of arity %d' % (i, ans, kind, arity))
        else:
            ans = 0
        self.trace.append((kind, arity, ans))
        return ans

    def run(self, fn, prefix=()):
        if not self.installed:
            self.install()
        self.prefix = tuple(prefix); self.trace = []
        s1 = _random.getstate(); s2 = _np.random.get_state()
        try:
            res = fn()
        finally:
            if _random.getstate() != s1 or any(not _np.array_equal(a, b) for a, b in zip(_np.random.get_state(), s2)):
                raise HarnessError('an uncontrolled random draw happened (the state of a real generator changed)')
        if len(self.trace) < len(self.prefix):
            raise Divergence('replay diverged: %d answers given, %d points reached' % (len(self.prefix), len(self.trace)))
        self.stats['executions'] += 1
        return res, list(self.trace)

    def explore(self, fn, bound=2, cap=400, observe=repr):
        """yield (answers, result) for every execution with at most `bound` non-default answers
        (bound None: all), at most `cap` executions per tree (reported in stats when hit)"""
        res0, tr0 = self.run(fn, ())
        res0b, tr0b = self.run(fn, ())
        if tr0 != tr0b or observe(res0) != observe(res0b):
            import difflib
            a, b = observe(res0), observe(res0b)
            diff = [l for l in difflib.unified_diff(a.splitlines() or [a], b.splitlines() or [b], lineterm='', n=0)][:8] if tr0 == tr0b else ['traces differ: %r vs %r' % (tr0[:6], tr0b[:6])]
            raise ReplayDiffers('%s' % ' | '.join(x[:300] for x in diff))
        self.stats['executions'] -= 1
        stack = [((), res0, tr0)]
        n = 0; full = True
        self.stats['trees'] += 1
        while stack:
            prefix, res, trace = stack.pop()
            if res is None:
                res, trace = self.run(fn, prefix)
            n += 1
            self.stats['points'] += len(trace) - len(prefix) if prefix else len(trace)
            self.stats['max_points'] = max(self.stats['max_points'], len(trace))
            a = Answers(t[2] for t in trace); a.trace = list(trace)
            yield a, res
            for i in range(len(prefix), len(trace)):
                dev = sum(1 for t in trace[:i] if t[2] != 0)
                if trace[i][1] - 1 > MAX_ALTERNATIVES_PER_POINT:
                    self.stats['bounded_out'] += trace[i][1] - 1 - MAX_ALTERNATIVES_PER_POINT; full = False
                for alt in range(1, min(trace[i][1], MAX_ALTERNATIVES_PER_POINT + 1)):
                    if (bound is not None and dev + 1 > bound) or n + len(stack) >= cap:
                        self.stats['bounded_out'] += 1; full = False
                        continue
                    self.stats['alternatives'] += 1
                    stack.append((tuple(t[2] for t in trace[:i]) + (alt,), None, None))
        self.stats['full_trees'] += 1 if full else 0
