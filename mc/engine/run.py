"""Runner: tiers, seed, workers, evidence, replay, known findings.

Usage (through /verif/check):
    check <ID> quick|thorough            run the check, rewrite evidence/<ID>.json
    check <ID> --replay <file>           re-execute one recorded counterexample, no explorer
    check --selftest                     reference-model and engine self-tests

Check-module interface (mc/checks/<ID>.py):
    ENGINE   str            'E1 product' | 'E1+E2' | 'E3 state graph'
    plan(tier, seed) -> dict(scenarios=[json-able descriptors], menus=dict, bounds=dict,
                             exhaustive=bool, caps=[str], rule=str, assumptions=[str])
    run(sc, ctx) -> dict     counters (summed), 'hashes' (set of ints, united), 'outcomes'
                             (dict key->count, summed), 'violations' (list), 'samples' (list)
Exit codes: 0 held (KNOWN-FINDING lines allowed); 1 VIOLATION; 2 harness error.
"""
import sys, os, json, time, importlib, hashlib, traceback, signal, subprocess, collections, multiprocessing

VERIF = os.path.dirname(os.path.dirname(os.path.dirname(os.path.abspath(__file__))))
REPO = os.environ.get('MOFUN_VERIF_REPO', '/repo')
SCENARIO_TIMEOUT = float(os.environ.get('VERIF_SCENARIO_TIMEOUT', '900'))
MAX_REPLAYS_PER_CLAUSE = 5
MAX_VIOLATIONS_KEPT = 400


class HarnessError(Exception):
    """the harness itself (generator, reference model, explorer) is wrong - never a verdict"""


class ReplayDiffers(HarnessError):
    """two replays of the same schedule on the same objects were observed to differ"""



def bind_repo():
    """import mofun from REPO's working tree and nowhere else"""
    if sys.path[0] != REPO:
        sys.path.insert(0, REPO)
    import mofun
    f = os.path.realpath(mofun.__file__)
    if not f.startswith(os.path.realpath(REPO) + os.sep):
        raise HarnessError("mofun imported from %s, not from %s" % (f, REPO))
    return mofun


class _Null:
    def write(self, *a): return 0
    def flush(self): pass
    def isatty(self): return False


class ScenarioTimeout(BaseException):
    """watchdog; a BaseException so that no `except Exception` in the checks or in mofun can swallow it"""


def _alarm(signum, frame):
    raise ScenarioTimeout()


_W = {}


def _worker_init(modname, ctx, quiet):
    bind_repo()
    _W['mod'] = importlib.import_module(modname)
    _W['ctx'] = ctx
    if quiet:
        sys.stdout = _Null(); sys.stderr = _Null()
    signal.signal(signal.SIGALRM, _alarm)
    if hasattr(_W['mod'], 'worker_init'):
        _W['mod'].worker_init(ctx)


def h64(obj):
    """stable 64-bit hash of a json-able / repr-able object"""
    if not isinstance(obj, (bytes, bytearray)):
        obj = repr(obj).encode()
    return int.from_bytes(hashlib.blake2b(obj, digest_size=8).digest(), 'big')


def merge(total, r):
    for k, v in r.items():
        if isinstance(v, (set, frozenset)):
            total.setdefault(k, set()).update(v)
        elif k == 'outcomes':
            oc = total.setdefault('outcomes', collections.Counter())
            for kk, vv in v.items():
                oc[kk] += vv
        elif k == 'violations':
            tv = total.setdefault('violations', [])
            if len(tv) < MAX_VIOLATIONS_KEPT:
                tv.extend(v[:MAX_VIOLATIONS_KEPT - len(tv)])
            if 'n_violations' not in r:
                total['n_violations'] = total.get('n_violations', 0) + len(v)
        elif k == 'samples':
            ts = total.setdefault('samples', [])
            if len(ts) < 6:
                ts.extend(v[:6 - len(ts)])
        elif isinstance(v, (int, float)):
            total[k] = total.get(k, 0) + v
        elif k.startswith('max_'):
            total[k] = max(total.get(k, v), v)
        else:
            total.setdefault(k, v)


def run_one(mod, sc, ctx):
    """run one scenario under the watchdog; exceptions escaping the *check* are harness errors,
    exceptions escaping mofun are turned into violations by the check itself"""
    signal.setitimer(signal.ITIMER_REAL, float(ctx.get('timeout') or SCENARIO_TIMEOUT))
    if os.environ.get('VERIF_TRACE'):
        open('/tmp/verif-trace-%d' % os.getpid(), 'w').write(repr(sc))
    try:
        return mod.run(sc, ctx)
    except Exception as e:
        if type(e).__name__ != 'ReplayDiffers':      # by name: this file runs as __main__ and is imported as mc.engine.run by the checks
            raise
        # the same call on the same objects with the same answers to every random draw gave two different results: the
        # library keeps state between calls (every nondeterminism of the harness side is owned: PYTHONHASHSEED, warnings, draws)
        return dict(evals=2, compared=1, violations=[dict(clause='history', sig='same-call-differs', scenario=sc, concrete={},
                    msg='the same call on the same objects with the same answers to every random draw gave two different results (state kept between calls): %s' % e)])
    except ScenarioTimeout:
        return dict(evals=1, violations=[dict(clause='no-result', sig='timeout', scenario=sc,
                    msg='scenario did not finish within %.0fs' % float(ctx.get('timeout') or SCENARIO_TIMEOUT))])
    finally:
        signal.setitimer(signal.ITIMER_REAL, 0)


def _run_chunk(chunk):
    total = {}
    for sc in chunk:
        try:
            merge(total, run_one(_W['mod'], sc, _W['ctx']))
        except HarnessError as e:
            total.setdefault('harness_errors', []).append(dict(scenario=sc, error=str(e)))
        except Exception:
            total.setdefault('harness_errors', []).append(dict(scenario=sc, error=traceback.format_exc()[-2000:]))
    he = total.pop('harness_errors', None)
    if he:
        total['harness_errors_list'] = he
    return total


def load_known():
    p = os.path.join(VERIF, 'known_findings.json')
    if not os.path.exists(p):
        return []
    return json.load(open(p)).get('findings', [])


def match_known(pid, v, known):
    for k in known:
        if k.get('status') != 'known' or k['property'] != pid:
            continue
        if k.get('clause') is not None and k['clause'] != v.get('clause'):
            continue
        if k.get('sig') is not None and k['sig'] != v.get('sig'):
            continue
        return k
    return None


def jsonable(o):
    import numpy as np
    if isinstance(o, dict):
        return {str(k): jsonable(v) for k, v in o.items()}
    if isinstance(o, (list, tuple, set, frozenset)):
        return [jsonable(x) for x in o]
    if isinstance(o, np.ndarray):
        return o.tolist()
    if isinstance(o, (np.integer,)):
        return int(o)
    if isinstance(o, (np.floating,)):
        return float(o)
    if isinstance(o, (np.bool_,)):
        return bool(o)
    if isinstance(o, (str, int, float, bool)) or o is None:
        return o
    return repr(o)


def write_replay(pid, n, v, tier, seed):
    d = os.path.join(VERIF, 'replays', pid)
    os.makedirs(d, exist_ok=True)
    path = os.path.join(d, '%d.json' % n)
    with open(path, 'w') as f:
        json.dump(jsonable(dict(property=pid, tier=tier, seed=seed, **v)), f, indent=1)
    return path


def validate_evidence(path):
    schema = os.path.join(VERIF, 'mc', 'schemas', 'EVIDENCE.schema.json')
    code = ("import json,sys,jsonschema; jsonschema.validate(json.load(open(sys.argv[1])), "
            "json.load(open(sys.argv[2])))")
    for py in ('python3-vt', '/opt/veriftools/pyvenv/bin/python'):
        try:
            r = subprocess.run([py, '-c', code, path, schema], capture_output=True, text=True, timeout=120)
        except (FileNotFoundError, subprocess.TimeoutExpired):
            continue
        if r.returncode != 0:
            raise HarnessError('evidence file does not validate: ' + r.stderr[-800:])
        return True
    return False   # validator not available: not an error of the check


def main(argv):
    if argv and argv[0] == '--selftest':
        from mc import selftest
        return selftest.main()
    if len(argv) < 2:
        print(__doc__); return 2
    pid = argv[0]
    seed = int(os.environ.get('VERIF_SEED', '0'))
    modname = 'mc.checks.' + pid
    bind_repo()
    mod = importlib.import_module(modname)
    known = load_known()

    if argv[1] == '--replay':
        rec = json.load(open(argv[2]))
        ctx = dict(tier=rec.get('tier', 'quick'), seed=rec.get('seed', 0), replay=True)
        signal.signal(signal.SIGALRM, _alarm)
        if hasattr(mod, 'worker_init'):
            mod.worker_init(ctx)
        so, se = sys.stdout, sys.stderr
        sys.stdout = _Null(); sys.stderr = _Null()
        try:
            r = run_one(mod, rec['scenario'], ctx)
        finally:
            sys.stdout, sys.stderr = so, se
        vs = [v for v in r.get('violations', [])]
        same = [v for v in vs if v.get('clause') == rec.get('clause')] or vs
        if same:
            v = same[0]
            print('replayed: clause=%s sig=%s\n%s' % (v.get('clause'), v.get('sig'), v.get('msg')))
            k = match_known(pid, v, known)
            if k:
                print('KNOWN-FINDING: property=%s %s' % (pid, k['what'])); return 0
            print('VIOLATION property=%s replay=%s' % (pid, argv[2])); return 1
        print('replay: no violation on this tree (%d executions)' % r.get('evals', 0)); return 0

    tier = argv[1]
    if tier not in ('quick', 'thorough'):
        print('tier must be quick or thorough'); return 2
    t0 = time.time()
    ctx = dict(tier=tier, seed=seed, replay=False)
    plan = mod.plan(tier, seed)
    scenarios = plan['scenarios']
    ctx['timeout'] = plan.get('timeout')
    nproc = int(os.environ.get('VERIF_WORKERS', str(os.cpu_count() or 4)))
    chunk = max(1, min(plan.get('chunk', 64), (len(scenarios) + nproc * 4 - 1) // (nproc * 4)))
    chunks = [scenarios[i:i + chunk] for i in range(0, len(scenarios), chunk)]
    total = {}
    if nproc <= 1 or len(chunks) <= 1:
        _worker_init(modname, ctx, quiet=False)
        so, se = sys.stdout, sys.stderr
        sys.stdout = _Null(); sys.stderr = _Null()
        try:
            for c in chunks:
                merge(total, _run_chunk(c))
        finally:
            sys.stdout, sys.stderr = so, se
    else:
        with multiprocessing.get_context('fork').Pool(nproc, _worker_init, (modname, ctx, True)) as pool:
            for r in pool.imap_unordered(_run_chunk, chunks):
                merge(total, r)
    herr = total.pop('harness_errors_list', None)
    if herr:
        print('HARNESS ERROR in %s; first:\n%s\nscenario=%r' % (pid, herr[0]['error'], herr[0]['scenario']))
        return 2
    if hasattr(mod, 'finish'):
        merge(total, mod.finish(total, ctx) or {})

    # ---- verdict
    viols = total.get('violations', [])
    n_viol_total = total.get('n_violations', 0)
    seen_known = collections.OrderedDict(); new = []
    for v in viols:
        k = match_known(pid, v, known)
        if k:
            seen_known.setdefault(k['id'], [k, 0]); seen_known[k['id']][1] += 1
        else:
            new.append(v)
    replays = []; per_clause = collections.Counter()
    if new:
        import shutil
        shutil.rmtree(os.path.join(VERIF, 'replays', pid), ignore_errors=True)
    for v in new:
        key = (v.get('clause'), v.get('sig'))
        if per_clause[key] >= MAX_REPLAYS_PER_CLAUSE:
            continue
        per_clause[key] += 1
        replays.append((v, write_replay(pid, len(replays), v, tier, seed)))

    # ---- evidence
    hashes = total.get('hashes', set())
    states = int(total.get('states', 0)) + len(hashes)
    transitions = int(total.get('evals', 0))
    outcomes = total.get('outcomes', {})
    cov = dict(
        states=states, transitions=transitions,
        traces_validated_against_impl=int(total.get('compared', transitions)),
        evaluations=len(scenarios) if 'evaluations' not in total else int(total['evaluations']),
        distinct_nontrivial=int(total.get('nontrivial', 0)) + len(total.get('nontrivial_hashes', ())),
        rule=plan.get('rule', ''),
        samples=jsonable(total.get('samples', []))[:6] or [jsonable(scenarios[0])],
        exhaustive=bool(plan.get('exhaustive', False)) and not plan.get('caps'),
        caps_hit=plan.get('caps', []),
        scenarios=len(scenarios), menus=jsonable(plan.get('menus', {})), bounds=jsonable(plan.get('bounds', {})),
        distinct_outcomes=len(outcomes),
        outcome_histogram={str(k): int(v) for k, v in sorted(outcomes.items(), key=lambda kv: -kv[1])[:25]},
        engine=getattr(mod, 'ENGINE', ''),
        known_findings_seen={kid: n for kid, (k, n) in seen_known.items()},
        repo=REPO, workers=nproc,
    )
    for k, v in total.items():
        if k in ('hashes', 'outcomes', 'violations', 'samples', 'evals', 'compared', 'nontrivial', 'states', 'n_violations', 'evaluations', 'nontrivial_hashes'):
            continue
        if isinstance(v, (int, float, str)):
            cov[k] = v
    ev = dict(property_id=pid, tier=tier, seed=seed, level='model_checking', coverage=cov,
              assumptions=plan.get('assumptions', []), wall_s=round(time.time() - t0, 2),
              violations=len(new) + max(0, n_viol_total - len(viols)))
    os.makedirs(os.path.join(VERIF, 'evidence'), exist_ok=True)
    evpath = os.path.join(VERIF, 'evidence', pid + '.json')
    if os.environ.get('VERIF_NO_EVIDENCE'):      # mutation runs on a scratch copy must not overwrite evidence
        evpath = os.path.join('/tmp', 'mofun-verif-evidence-%s-%d.json' % (pid, os.getpid()))
    with open(evpath, 'w') as f:
        json.dump(ev, f, indent=1, sort_keys=True)
    validate_evidence(evpath)
    if os.environ.get('VERIF_NO_EVIDENCE'):
        os.remove(evpath)

    print('%s %s seed=%d: scenarios=%d states=%d transitions=%d compared=%d distinct_outcomes=%d nontrivial=%d wall=%.1fs%s' % (
        pid, tier, seed, len(scenarios), states, transitions, cov['traces_validated_against_impl'], len(outcomes),
        cov['distinct_nontrivial'], time.time() - t0, '' if cov['exhaustive'] else ' (caps: %s)' % (plan.get('caps') or 'not exhaustive')))
    for kid, (k, n) in seen_known.items():
        print('KNOWN-FINDING: property=%s %s [%s, %d case(s)]' % (pid, k['what'], kid, n))
    if transitions == 0:
        print('HARNESS ERROR: vacuous run, no executions'); return 2
    if new:
        bysig = collections.Counter((v.get('clause'), v.get('sig')) for v in new)
        print('violations by (clause, sig) among the first %d kept: %s' % (len(new), dict(bysig)))
        for v, path in replays:
            print('  clause=%s sig=%s: %s' % (v.get('clause'), v.get('sig'), str(v.get('msg'))[:300].replace('\n', ' | ')))
            print('VIOLATION property=%s replay=%s' % (pid, path))
        print('%d violating case(s) in total, %d replay file(s) written' % (len(new) if n_viol_total <= len(viols) else n_viol_total, len(replays)))
        return 1
    return 0


if __name__ == '__main__':
    try:
        rc = main(sys.argv[1:])
    except HarnessError as e:
        print('HARNESS ERROR: %s' % e); rc = 2
    sys.exit(rc)
