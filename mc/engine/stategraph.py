"""E3 - explicit-state breadth-first search over operation histories of real objects.

A state is whatever the model says (here: real Atoms object + reference structure).  A transition
calls the real method with one operation from a finite menu (the model applies the same abstract
operation to its reference); states are deduplicated by a canonical key; the invariant / refinement
relation is evaluated in every state; the search stops at a depth bound.  Successors are built from a
copy of the stored state and, for every newly discovered state, additionally by replaying the whole
history from the initial state - both must give the same canonical key ("start from elsewhere"
differential; also proves that copies are faithful and the run is deterministic).
"""
import collections
from mc.engine.run import HarnessError, h64


class Disabled(Exception):
    """the operation turned out not to be enabled in this state (outside the property's domain)"""


class Violation(Exception):
    def __init__(self, clause, sig, msg):
        super().__init__(msg); self.clause = clause; self.sig = sig; self.msg = msg


def replay(model, init, history, check=True):
    """-> (state, None) or (None, (step, Violation))"""
    st = model.initial(init)
    for i, op in enumerate(history):
        try:
            st = model.apply(st, op, i)
            if check:
                model.check(st)
        except Disabled:
            return None, (i, Violation('replay', 'disabled', 'operation %r is not enabled at step %d' % (op, i)))
        except Violation as v:
            return None, (i, v)
    return st, None


def bfs(model, init, prefix, depth, stats, max_violations=6):
    """explore every history that starts with `prefix` (list of ops) up to `depth` operations in total.
    Returns (set of state hashes, list of (history, Violation))."""
    seen = set(); viols = []
    st0, bad = replay(model, init, prefix)
    stats['transitions'] += len(prefix)
    if bad:
        return seen, [(prefix[:bad[0] + 1], bad[1])]
    k0 = h64(model.key(st0)); seen.add(k0)
    frontier = collections.deque([(st0, list(prefix))])
    while frontier:
        st, hist = frontier.popleft()
        if len(hist) >= depth:
            continue
        for op in model.ops(st, len(hist)):
            stats['transitions'] += 1
            try:
                nxt = model.apply(st, op, len(hist))
                model.check(nxt)
            except Disabled:
                stats['transitions'] -= 1; stats['disabled'] = stats.get('disabled', 0) + 1
                continue
            except Violation as v:
                if len(viols) < max_violations:
                    viols.append((hist + [op], v))
                stats['violating_transitions'] += 1
                continue
            k = h64(model.key(nxt))
            stats['max_depth'] = max(stats['max_depth'], len(hist) + 1)
            if k in seen:
                continue
            seen.add(k)
            # differential: the same history replayed from the initial state must reach the same state
            again, bad = replay(model, init, hist + [op], check=False)
            stats['replays'] += 1
            if bad or h64(model.key(again)) != k:
                raise HarnessError('state reached from a copied state differs from the state reached by replaying %r from the initial state%s' % (
                    hist + [op], '' if not bad else ' (replay stopped at step %d: %s %s)' % (bad[0], bad[1].clause, bad[1].msg)))
            frontier.append((nxt, hist + [op]))
    return seen, viols
