"""Self-tests of the reference models and engines (setup_cmd). Filled in as modules are added."""
import sys, importlib


def main():
    failed = 0
    for name in ['mc.ref.selftests']:
        try:
            m = importlib.import_module(name)
        except ModuleNotFoundError:
            continue
        for fn in sorted(x for x in dir(m) if x.startswith('test_')):
            try:
                getattr(m, fn)(); print('ok   ', fn)
            except Exception as e:
                failed += 1; print('FAIL ', fn, repr(e))
    print('selftest: %s' % ('FAILED' if failed else 'ok'))
    return 1 if failed else 0
