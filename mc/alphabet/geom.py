"""Finite menus for the geometric properties (C01-C05, C07, C08, C12, C17). No import of mofun."""
import itertools
import numpy as np
from scipy.spatial.transform import Rotation as R
from mc.ref.geom import cconst, wrap

GEN = R.from_euler('xyz', [0.3, 1.1, 2.0]).as_matrix()
TRI_P = np.array([[9.0, 0, 0], [2.5, 8.5, 0], [1.5, 2.0, 9.5]])
TRI_M = np.array([[9.0, 0, 0], [-3.0, 8.5, 0], [2.0, -2.5, 9.5]])
ORTHO = np.diag([8.0, 9.5, 11.0])
TRI_N = np.array([[9.0, 0, 0], [-3.0, 9.5, 0], [-2.5, -2.0, 10.0]])      # every tilt factor negative
TRI_C = np.array([[9.0, 0, 0], [2.5, 9.5, 0], [1.5, 2.0, 8.0]])      # face areas in the opposite order to TRI_P
CELLS = [
    ('cubic 9', np.diag([9.0, 9.0, 9.0])),
    ('orthorhombic 8x9.5x11', ORTHO),
    ('triclinic, positive tilts', TRI_P),
    ('triclinic, mixed-sign tilts', TRI_M),
    ('triclinic, arbitrarily oriented', TRI_P @ GEN.T),
    ('orthogonal vectors rotated off the axes', ORTHO @ GEN.T),
    ('triclinic, c thinner than b (|a x b| > |b x c| > |a x c|)', TRI_C),
    ('monoclinic, upper-triangular matrix (a has a y component)', np.array([[9.0, 3.0, 0], [0, 8.5, 0], [0, 0, 9.5]])),
]
CELL_IS_LAMMPS = [True, True, True, True, False, False, True, False]

S3 = 3 ** 0.5
PATTERNS = {
    'Zr': (['Zr'], [(0, 0, 0)]),
    'CN': (['C', 'N'], [(0, 0, 0), (1.3, 0, 0)]),
    'CC': (['C', 'C'], [(0, 0, 0), (1.4, 0, 0)]),
    'OCO': (['O', 'C', 'O'], [(-1.16, 0, 0), (0, 0, 0), (1.16, 0, 0)]),
    'HCN': (['H', 'C', 'N'], [(0, 0, 0), (1.06, 0, 0), (2.22, 0, 0)]),
    'CNO': (['C', 'N', 'O'], [(0, 0, 0), (1.3, 0, 0), (1.6, 1.2, 0)]),
    'BF3': (['B', 'F', 'F', 'F'], [(0, 0, 0), (1.3, 0, 0), (-0.65, 1.3 * S3 / 2, 0), (-0.65, -1.3 * S3 / 2, 0)]),
    'CH4': (['C', 'H', 'H', 'H', 'H'], [(0, 0, 0), (.63, .63, .63), (-.63, -.63, .63), (-.63, .63, -.63), (.63, -.63, -.63)]),
    'CHFClBr': (['C', 'H', 'F', 'Cl', 'Br'], [(0, 0, 0), (.63, .63, .63), (-.8, -.8, .8), (-1.0, 1.0, -1.0), (1.1, -1.1, -1.1)]),
    'CHHB': (['C', 'H', 'H', 'B'], [(0, 0, 0), (1, 0, 0), (0, 2, 0), (0, 0, 1)]),
    'CNHH': (['C', 'N', 'H', 'H'], [(0, 0, 0), (1.3, 0, 0), (-0.5, 0.9, 0.3), (-0.5, -0.9, 0.3)]),      # mirror plane but no rotation symmetry: the two H can be swapped by a reflection only
    'HCNy': (['H', 'C', 'N'], [(0, 0, 0), (0, 1.06, 0), (0, 2.22, 0)]),                                   # asymmetric, search axis exactly along y
    'CNOz': (['C', 'N', 'O'], [(0, 0, 0), (0.9, 0.3, 0.8), (0, 0, 2.0)]),                                  # asymmetric, search axis exactly along z
    'frag7': (['C', 'C', 'O', 'O', 'H', 'N', 'F'], [(0, 0, 0), (1.4, 0.2, 0), (2.0, 1.3, 0.3), (2.1, -0.9, -0.4), (-0.6, 0.9, 0.2), (-0.7, -1.0, 0.5), (0.1, 0.2, -1.4)]),
}
PATTERN_NAMES = list(PATTERNS)
CHIRAL = ['CHFClBr', 'CHHB', 'frag7']


def pattern(name):
    el, pp = PATTERNS[name]
    return list(el), np.array(pp, dtype=float)


def cube_rotations():
    mats = []
    for perm in itertools.permutations(range(3)):
        for signs in itertools.product([1, -1], repeat=3):
            M = np.zeros((3, 3))
            for i, p in enumerate(perm):
                M[i, p] = signs[i]
            if np.linalg.det(M) > 0:
                mats.append(M)
    mats.sort(key=lambda M: (not np.allclose(M, np.identity(3)), tuple(-M.ravel())))
    return mats


def near_degenerate():
    """rotations next to the antiparallel / parallel branches of the construction"""
    return [R.from_rotvec(np.array([0, 0, 1.0]) * (np.pi - 1e-7)).as_matrix(),
            R.from_rotvec(np.array([0, 1.0, 0]) * (np.pi + 1e-7)).as_matrix(),
            R.from_rotvec(np.array([0, 0, 1.0]) * 1e-9).as_matrix(),
            R.from_rotvec(np.array([0.6, 0.8, 0]) * np.pi).as_matrix()]


def generic_rotations(seed, g):
    return [R.random(random_state=np.random.RandomState(1000 + 97 * seed + i)).as_matrix() for i in range(g)]


def poses(seed, g, cube=None):
    """[(name, matrix)]; cube = indices into cube_rotations() to include (None: all 24)"""
    cr = cube_rotations()
    out = [('cube%d' % i, cr[i]) for i in (range(24) if cube is None else cube)]
    out += [('neardeg%d' % i, M) for i, M in enumerate(near_degenerate())]
    out += [('generic%d' % i, M) for i, M in enumerate(generic_rotations(seed, g))]
    return out


LOOKALIKE = {'C': 'Cl', 'O': 'Os', 'H': 'He', 'B': 'Br', 'N': 'Ni'}
COLLINEAR = ['OCO', 'HCN', 'HCNy']
BENT_DIR = {'OCO': np.array([0, 0.3, 0]), 'HCN': np.array([0, 0, 0.3]), 'HCNy': np.array([0.3, 0, 0])}
PLACEMENTS = [tuple(p) for p in itertools.product([0.03, 0.5, 0.97], repeat=3)] + [(0.0, 0.0, 0.0), (0.0, 0.5, 0.5), (0.5, 0.0, 0.0), (0.0, 0.0, 0.5)]
CORNERS = [tuple(p) for p in itertools.product([0.03, 0.97], repeat=3)]
DECOYS = ['none', 'mirror', 'nearmiss', 'partial', 'distractors', 'second', 'lookalike', 'bent']
ATOLS = [0.05, 0.01, 0.2]


def noise_vectors(k, seed, length):
    r = np.random.RandomState(5000 + seed)
    nz = r.normal(size=(k, 3))
    return nz / np.linalg.norm(nz, axis=1)[:, None] * length


def build(cell, pname, rotM, fracpos, decoy='none', atol=0.05, noise=False, seed=0, extra_copies=()):
    """structure with one planted copy of the pattern (+ decoys / further copies).
    Returns dict(pos, el, planted=[index tuples], pp, pel).  Atoms are wrapped into the cell."""
    pel, pp = pattern(pname); k = len(pel)
    P = (rotM @ pp.T).T + np.array(fracpos) @ cell
    if noise and k > 1:
        P = P + noise_vectors(k, seed, 0.6 * 0.8 * atol / cconst(pp))
    pos = [P]; el = list(pel); planted = [tuple(range(k))]
    far = (np.array(fracpos) + 0.5) % 1.0
    if decoy == 'mirror':
        pos.append((rotM @ (pp * [1, 1, -1]).T).T + far @ cell); el += list(pel)
        if pname not in CHIRAL:
            planted.append(tuple(range(k, 2 * k)))      # the mirror image of an achiral pattern is a genuine copy
    elif decoy == 'nearmiss' and k > 1:
        q = pp.copy(); v = q[-1] - q[0]; q[-1] = q[-1] + v / np.linalg.norm(v) * 6 * atol
        pos.append((rotM @ q.T).T + far @ cell); el += list(pel)
    elif decoy == 'partial' and k > 1:
        pos.append((rotM @ pp[:-1].T).T + far @ cell); el += list(pel[:-1])
    elif decoy == 'distractors':
        # same-element atoms inside the candidate window but > 4 atol (and > 0.6 A) off any pattern site
        ctr = P.mean(0)
        for j, d in enumerate([(0.9, 0.7, -0.8), (-0.75, 0.85, 0.9), (0.8, -0.9, 0.7)]):
            q = ctr + np.array(d) * (1.0 + 0.5 * np.abs(pp).max())
            if np.linalg.norm(P - q, axis=1).min() > max(0.6, 4.5 * atol):
                pos.append(q[None, :]); el.append(pel[min(j, k - 1)])
    elif decoy == 'lookalike' and pel[0] in LOOKALIKE:
        # a copy whose first atom is another element with a look-alike symbol (C -> Cl): not an occurrence
        pos.append((rotM @ pp.T).T + far @ cell); el += [LOOKALIKE[pel[0]]] + list(pel[1:])
    elif decoy == 'bent' and pname in COLLINEAR:
        # collinear triple with the middle atom pushed 0.3 A sideways: every pair distance still agrees within 0.05 A,
        # but no rigid motion brings the atoms within the tolerance
        q = pp.copy(); q[1] = q[1] + BENT_DIR[pname]
        pos.append((rotM @ q.T).T + far @ cell); el += list(pel)
    elif decoy == 'second':
        pos.append((rotM.T @ pp.T).T + far @ cell); el += list(pel); planted.append(tuple(range(k, 2 * k)))
    for (rot2, frac2) in extra_copies:
        n0 = sum(len(x) for x in pos)
        pos.append((rot2 @ pp.T).T + np.array(frac2) @ cell); el += list(pel); planted.append(tuple(range(n0, n0 + k)))
    pos = wrap(np.vstack(pos), cell)
    return dict(pos=pos, el=el, planted=planted, pp=pp, pel=pel)


def sheet_pattern(n=30, height=0.5, apex_at=None):
    """many-atom chiral pattern: an irregular flat sheet of n atoms (elements cycling C, N, O; pairwise >= 1.3 A apart,
    within a 11 x 11 A square, 16 x 16 A for n > 30) plus one apex atom (S) `height` above the sheet, listed last or at
    index apex_at.  Its mirror image differs in one atom only, by 2*height; the rms displacement of the mirror image
    is 2*height/sqrt(n+1)."""
    r = np.random.RandomState(20240607); pts = []; side = 11.0 if n <= 30 else 16.0
    while len(pts) < n:
        q = r.uniform(0, side, 2)
        if all(np.linalg.norm(q - p) >= 1.3 for p in pts):
            pts.append(q)
    pel = [['C', 'N', 'O'][i % 3] for i in range(n)]; pp = [(x, y, 0.0) for x, y in pts]
    at = n if apex_at is None else apex_at
    pel.insert(at, 'S'); pp.insert(at, (0.48 * side, 0.54 * side, height))
    return pel, np.array(pp)


def sheet_structure(cell, rotM, anchor_frac, mirror_anchor_frac, n=30, height=0.5, apex_at=None):
    """(elements, positions, planted proper copy, planted mirror-image copy) in `cell` (wrapped)"""
    from mc.ref.geom import wrap
    pel, pp = sheet_pattern(n, height, apex_at)
    proper = (rotM @ (pp - pp.mean(0)).T).T + np.asarray(anchor_frac) @ cell
    mir = pp.copy(); mir[:, 2] *= -1
    rot2 = rotM @ rotM
    mirror = (rot2 @ (mir - mir.mean(0)).T).T + np.asarray(mirror_anchor_frac) @ cell
    pos = wrap(np.vstack([proper, mirror]), cell)
    k = len(pel)
    return pel + pel, pos, tuple(range(k)), tuple(range(k, 2 * k))


def _wrap(pos, cell):
    from mc.ref.geom import wrap
    return wrap(pos, cell)


SHEET_CELLS = [np.diag([30.0, 30.0, 30.0]), np.array([[30.0, 0, 0], [4.0, 31.0, 0], [-5.0, 3.0, 29.0]])]


def large_case(order):
    """32768 inert He atoms on a grid + 5 rotated C-O-H copies (one across a cell corner, one across a face); in the periodic
    image list every copy atom that is stored after the grid, or is an image, has an index beyond 2^15"""
    L = 64.0; cell = np.diag([L, L, L])
    g = np.arange(32) * 2.0 + 1.0
    he = np.array(np.meshgrid(g, g, g)).T.reshape(-1, 3)
    pp = np.array([(0.0, 0.0, 0.0), (1.15, 0.0, 0.0), (1.45, 0.93, 0.0)]); pel = ['C', 'O', 'H']
    rots = generic_rotations(0, 5)
    anchors = [(0.2, 0.3, 0.2), (63.9, 63.8, 63.9), (63.7, 20.2, 30.3), (10.1, 10.2, 50.3), (40.4, 0.15, 40.2)]
    copies = [_wrap((rots[i] @ pp.T).T + np.array(a), cell) for i, a in enumerate(anchors)]
    if order == 0:      # copies after the grid
        pos = np.vstack([he] + copies); el = ['He'] * len(he) + pel * 5; planted = [tuple(range(len(he) + 3 * i, len(he) + 3 * i + 3)) for i in range(5)]
    elif order == 2:    # copies before the grid
        pos = np.vstack(copies + [he]); el = pel * 5 + ['He'] * len(he); planted = [tuple(range(3 * i, 3 * i + 3)) for i in range(5)]
    else:               # one copy first, C atoms first and O/H after the grid
        cs = [c[0] for c in copies]; os_ = [c[1] for c in copies]; hs = [c[2] for c in copies]
        pos = np.vstack([np.array(cs), he, np.array(os_), np.array(hs)]); n = len(he)
        el = ['C'] * 5 + ['He'] * n + ['O'] * 5 + ['H'] * 5; planted = [(i, 5 + n + i, 10 + n + i) for i in range(5)]
    return cell, pos, el, pp, pel, planted
