"""C04 - replacement changes exactly the matched atoms and nothing else.

E1 over cells x patterns x poses x placements x (search, replacement) pairs x replace_all, and a
fraction sub-product (2-4 planted copies x fraction in {0, 1/4, 1/3, 1/2, 3/4, 1}); E2 over every
answer of random.sample and of the tie-break / random-vector draws.  The structure carries a payload
that makes every atom distinguishable (unique charges and groups, two labels per element, masses).
Oracle: driven by the matches actually used (recorded at the seam mofun.mofun.find_pattern_in_structure)
- number replaced n within 1/2 of f*M and equal to the returned count; replaced matches = the sample
answer; output = bystanders (bit-identical) + retained atoms (same position, charge, group) + inserted
atoms (count, elements, charge, group of the pattern) in append order; atom and per-element counts
change by n*(replacement - search); the three inputs are left unmodified.
"""
import collections
import numpy as np
from mc.checks.replacelib import *

ENGINE = 'E1+E2'
PATS = ['Zr', 'CN', 'OCO', 'CNO', 'BF3', 'CHHB']
FRACTIONS = [0.0, 0.25, 1.0 / 3, 0.5, 0.75, 1.0]


def plan(tier, seed):
    q = tier == 'quick'
    scs = []
    poses = [0, 4] if q else [0, 1, 3, 4, 5]
    places = [P(0.97, 0.03, 0.97), P(0.5, 0.5, 0.5)] if q else [P(*c) for c in G.CORNERS[::2]] + [P(0.5, 0.5, 0.5), P(0.0, 0.0, 0.0)]
    for ci in range(len(G.CELLS)):
        for pn in PATS + ([] if q else ['CH4', 'CHFClBr']):
            for pi in poses:
                for pl in places:
                    for pr in range(len(pairs(pn))):
                        for ra in (0, 1):
                            scs.append(dict(cell=ci, pat=pn, subpose=pi, place=pl, pair=pr, replace_all=ra, atol=0.05, fraction=1.0, noise=(pi + pl + pr) % 2))
    for ci in ([0, 2, 4] if q else range(len(G.CELLS))):
        for pn in (['Zr', 'CN', 'CNO'] if q else PATS):
            for nc in (2, 3, 4):
                for f in FRACTIONS:
                    for pr in ([0, 2, 4] if q else range(len(pairs(pn)))):
                        if pr >= len(pairs(pn)):
                            continue
                        scs.append(dict(cell=ci, pat=pn, subpose=4, ncopies=nc, place=0, pair=pr, replace_all=0, atol=0.05, fraction=f, noise=0))
    # tolerance sub-product: an exact copy plus a near-miss copy (one atom displaced by 0.12 A) searched with the default and a wide tolerance
    for ci in range(len(G.CELLS)):
        for pn in ['CN', 'CNO', 'BF3', 'CHHB']:
            for at in (0.05, 0.2, 0.3):
                for pr in (0, 2, 4):
                    scs.append(dict(cell=ci, pat=pn, subpose=4, place=P(0.97, 0.03, 0.97), pair=pr, replace_all=0, atol=at, build_atol=0.02, decoy='nearmiss', fraction=1.0, noise=0))
    # axis-aligned copies with noise (stretched / compressed within the tolerance along the axes), also with a wide tolerance
    for ci in (0, 1):
        for pn in ['CN', 'CNO', 'OCO']:
            for pi in (0, 1, 2, 3):
                for at in (0.05, 0.2):
                    scs.append(dict(cell=ci, pat=pn, subpose=pi, place=P(0.97, 0.03, 0.97), pair=2, replace_all=0, atol=at, build_atol=at * 1.6, fraction=1.0, noise=1))
    # patterns written far from the origin (relative tolerances, cancellation): every pair, incl. the one with an atom displaced by 0.04 A
    for ci in (0, 2, 6):
        for pn in ['CN', 'CNO', 'CHHB']:
            for pr in range(len(pairs(pn))):
                scs.append(dict(cell=ci, pat=pn, subpose=4, place=P(0.97, 0.03, 0.97), pair=pr, replace_all=0, atol=0.05, fraction=1.0, noise=0, frame=[9000.0, 7000.0, -8000.0]))
    # beyond the small bound: more than 2^15 atoms; a 31-atom chiral pattern next to its mirror image
    scs += [dict(scale='large', variant=v, atol=0.05, fraction=1.0, replace_all=ra) for v in (0, 1) for ra in (0, 1)]
    scs += [dict(scale='sheet', variant=v, height=0.5, atol=0.2, fraction=1.0, replace_all=ra) for v in (0, 1) for ra in (0, 1)]
    for ci in (0, 2, 4):
        for pn in ['CN', 'CNO']:
            for pr in [i for i, p_ in enumerate(pairs(pn)) if p_[0] in INSERTING][:4]:
                for rc in (1, 2):
                    scs.append(dict(cell=ci, pat=pn, subpose=4, place=P(0.97, 0.03, 0.97), pair=pr, replace_all=0, atol=0.05, fraction=1.0, noise=0, rcell=rc))
    scs += replace_history_scenarios()
    return dict(scenarios=scs, exhaustive=True, chunk=20,
                menus=dict(cells=[c[0] for c in G.CELLS], patterns=PATS + ([] if q else ['CH4', 'CHFClBr']), pairs=PAIR_NAMES, replace_all=[False, True], fractions=FRACTIONS, copies=[1, 2, 3, 4],
                           draws='every random.sample subset, every tie-break / vector answer within the bound'),
                bounds=dict(draw_deviation_bound=draw_bound(tier)),
                rule='one scenario per alphabet tuple, every draw answer inside; non-trivial = at least one match replaced by a non-identical pattern',
                assumptions=['planted copies are pairwise disjoint (non-overlapping matches)', 'coverage over the finite menus'])


def atom_rec(a, i):
    t = int(a.atom_types[i])
    return (str(a.atom_type_elements[t]), str(a.atom_type_labels[t]), round(float(a.atom_type_masses[t]), 9), round(float(a.charges[i]), 12), int(a.groups[i]))


def check_execution(c, sc, answers, res, nm, rec, out, case):
    s, sp, rp = c['s'], c['sp'], c['rp']
    f = sc['fraction']
    V = lambda clause, sig, msg: out['violations'].append(viol(clause, sig, '%s [pair=%s, draw answers %r]' % (msg, c['pair'], tuple(answers)), sc, case=case, answers=list(answers)))
    if rec is None:
        V('matches', 'no-search', 'the replacement did not search the structure'); return
    idxs = [tuple(int(i) for i in t) for t in rec[0]]
    M = len(idxs)
    sel = selected_matches(answers, rec, f)
    if sel is None:
        pts = [t for t in answers.trace if t[0].startswith('sample')]
        V('count', 'sample', 'with %d matches and fraction %g the call drew %r' % (M, f, pts)); return
    n = len(sel)
    if abs(n - f * M) > 0.5 + 1e-9:
        V('count', 'rounding', '%d of %d matches selected for fraction %g' % (n, M, f))
    if nm != n:
        V('count', 'reported', 'reported match count %r, %d matches were replaced' % (nm, n))
    try:
        oa, _ = view(res)
    except Inconsistent as e:
        V('consistent', e.clause, 'result is inconsistent: %s' % e); return
    N = len(s.atom_types)
    sh = {} if sc.get('replace_all') else shared_map(c['pel'], c['pp'], c['rel'], c['rpos'])
    empty = len(c['rel']) == 0
    deleted = set(); retained = {}
    for mi in sel:
        m = idxs[mi]
        keep = {m[j]: i for i, j in sh.items()} if not empty else {}
        for a in m:
            if a in keep:
                retained[a] = keep[a]
            else:
                deleted.add(a)
    ins_idx = [i for i in range(len(c['rel'])) if i not in sh]
    exp = []
    for a in range(N):
        if a in deleted:
            continue
        r = atom_rec(s, a)
        if a in retained:
            i = retained[a]
            r = (c['rel'][i], c['rel'][i], round(MASS[c['rel'][i]], 9) if c['rel'][i] in MASS else None, r[3], r[4])
        exp.append((r, tuple(float(x) for x in s.positions[a]), 'retained' if a in retained else 'bystander'))
    for mi in sel:
        for i in ins_idx:
            exp.append(((c['rel'][i], c['rel'][i], None, float(rp.charges[i]), int(rp.groups[i])), None, 'inserted'))
    if len(oa) != len(exp):
        V('atoms', 'count', 'result has %d atoms, expected %d = %d - %d removed + %d inserted' % (len(oa), len(exp), N, len(deleted), len(sel) * len(ins_idx))); return
    for j, (got, (r, pos, kind)) in enumerate(zip(oa, exp)):
        g = (got[0], got[1], got[2], got[4], got[5])
        if kind == 'bystander':
            if g != r or tuple(got[-1]) != pos:
                V('bystander', 'changed', 'atom outside the replaced matches changed: %r at %r -> %r at %r' % (r, pos, g, got[-1])); break
        elif kind == 'retained':
            if (g[0], g[3], g[4]) != (r[0], r[3], r[4]) or np.abs(np.array(got[-1]) - np.array(pos)).max() > 1e-9:
                V('retained', 'changed', 'atom common to both patterns did not stay: expected %r at %r, got %r at %r' % (r, pos, g, got[-1])); break
        else:
            if (g[0], g[3], g[4]) != (r[0], r[3], r[4]):
                V('inserted', 'data', 'inserted atom %d is %r, the replacement pattern says element %s charge %g group %d' % (j, g, r[0], r[3], r[4])); break
    if sc.get('replace_all') and not empty:
        # replace-all mode removes and re-inserts the atoms common to both patterns: they must come back where they were
        cell = c['cell']; inv = np.linalg.inv(cell)
        full = shared_map(c['pel'], c['pp'], c['rel'], c['rpos'])
        cp = combined_c(c['pp'], c['rpos'])
        tail = [(x[0], np.array(x[-1])) for x in oa[len(oa) - len(sel) * len(ins_idx):]]
        for mi in sel:
            eps = kabsch(c['pp'], np.asarray(rec[1][mi]))[0]
            for i, j in full.items():
                p0 = np.asarray(s.positions[idxs[mi][j]])
                ok = False
                for e, q in tail:
                    d = (q - p0) @ inv
                    if e == c['rel'][i] and np.abs((d - np.round(d)) @ cell).max() <= 1e-6 + 2 * cp * eps:
                        ok = True; break
                if not ok:
                    V('retained', 'replace-all-moved', 'replace_all: the %s atom common to both patterns did not come back at %r (mod lattice)' % (c['rel'][i], np.round(p0, 4).tolist())); break
    ce = collections.Counter(x[0] for x in oa); ci = collections.Counter(atom_rec(s, a)[0] for a in range(N))
    delta = collections.Counter(c['rel']); delta.subtract(collections.Counter(c['pel']))
    for e in set(ce) | set(ci) | set(delta):
        if ce.get(e, 0) - ci.get(e, 0) != n * delta.get(e, 0):
            V('atoms', 'element-count', 'count of %s changed by %d, expected %d x %d' % (e, ce.get(e, 0) - ci.get(e, 0), n, delta.get(e, 0))); break
    return n


def run(sc, ctx):
    out = dict(evals=0, compared=0, violations=[], outcomes={}, hashes={h64(sc)}, nontrivial=0)
    if 'rhistory' in sc:
        judge_replace_history(run_replace_history(sc, ctx), sc, out, 'inputs-unmodified'); return out
    c = build_case(sc, ctx)
    case = case_dump(c, sc)
    before = [raw_state(c['s']), raw_state(c['sp']), raw_state(c['rp'])]
    ns = set()
    for answers, res, nm, err, rec in replace_executions(c, sc, ctx, draw_bound(ctx['tier'])):
        out['evals'] += 1; out['compared'] += 1
        if err:
            out['violations'].append(viol('no-result', 'exc:' + exc_sig(err), 'replace_pattern_in_structure raised %r [pair=%s, draws %r]' % (err[0], c['pair'], tuple(answers)), sc, case=case, tb=err[1]))
            continue
        n = check_execution(c, sc, answers, res, nm, rec, out, case)
        if rec is not None and not any(answers):
            # "only found matches are replaced": the matches used must be those a search with the same tolerance reports
            (direct, derr), _ = explorer(ctx).run(lambda: call(find_pattern_in_structure, c['s'], c['sp'], atol=sc['atol']), ())
            out['evals'] += 1
            if derr or sorted(tuple(sorted(int(i) for i in t)) for t in direct) != sorted(tuple(sorted(int(i) for i in t)) for t in rec[0]):
                out['violations'].append(viol('matches', 'differs-from-search', 'the replacement worked on matches %r, a search with the same tolerance %g reports %r [pair=%s]' % (
                    [tuple(int(i) for i in t) for t in rec[0]], sc['atol'], derr[0] if derr else [tuple(int(i) for i in t) for t in direct], c['pair']), sc, case=case))
        if rec is not None and 'scale' in sc:
            # beyond the small bound the occurrences are known by construction (the search itself is part of what is under test)
            exp = sorted(tuple(sorted(t)) for t in c['spec']['planted']); got = sorted(tuple(sorted(int(i) for i in t)) for t in rec[0])
            if got != exp:
                out['violations'].append(viol('matches', 'differs-from-planted', 'structure of %d atoms: the replacement worked on %d match(es) %r, the structure holds the %d occurrence(s) %r' % (
                    len(c['s'].atom_types), len(got), got[:6], len(exp), exp[:6]), sc))
        ns.add(n)
        if [raw_state(c['s']), raw_state(c['sp']), raw_state(c['rp'])] != before:
            out['violations'].append(viol('inputs-unmodified', 'modified', 'the call modified one of its input objects [pair=%s]' % c['pair'], sc, case=case))
            before = [raw_state(c['s']), raw_state(c['sp']), raw_state(c['rp'])]
        if len(out['violations']) > 6:
            break
    out['outcomes']['replaced=%s pair=%s' % (sorted(x for x in ns if x is not None), c['pair'][:12])] = 1
    if any(ns) and c['pair'] != 'identical':
        out['nontrivial'] = 1
    if sc.get('ncopies') == 3 and sc['fraction'] == 0.5 and sc.get('pat') == 'CNO' and sc['pair'] == 4 and sc.get('cell') == 2:
        out['samples'] = [dict(case=case, replaced=sorted(x for x in ns if x is not None))]
    return out
