"""C02 - every occurrence is found exactly once, also across periodic boundaries.

Same enumeration as C01 (single- and multi-copy, with decoys), hints off.  Oracle: the brute-force
periodic reference matcher (images -2..2, Kabsch fits) classifies every candidate atom group as IN /
GRAY / OUT (DESIGN.md section 2).  Required for every execution (every draw answer within the
bound): IN <= reported <= IN u GRAY as sets of sorted unit-cell index tuples; no group reported
twice; the planted copies are asserted to be IN (guards the generator).
"""
import numpy as np
from mc.checks.findlib import *
from mc.ref.geom import subset_rmsd_bound
from mc.ref.geom import wrap

ENGINE = 'E1+E2'


large_case = G.large_case
SHEET_CELLS = G.SHEET_CELLS


def plan(tier, seed):
    scs = base_scenarios(tier, seed, hints=False)
    scs += [dict(large=o) for o in (0, 1)]
    scs += [sc for sc in special_scenarios(tier) if sc['special'] != 'large'] + history_scenarios(tier)
    return dict(scenarios=scs, exhaustive=True, chunk=40, menus=menus(tier, seed),
                bounds=dict(draw_deviation_bound=draw_bound(tier), executions_cap_per_scenario=60 if tier == 'quick' else 300, reference_images='-2..2 per axis'),
                rule='one scenario per alphabet tuple, every draw answer within the bound inside; non-trivial = the reference finds at least one IN group and the scenario has a decoy, several copies or a boundary-crossing placement',
                assumptions=['coverage over the stated finite menus, not over R^3', 'IN: c*eps <= 0.8 atol; OUT: rmsd > 1.8 atol + 1e-3 or pair discrepancy > 3.7 atol; GRAY groups may be reported or not',
                             'occurrence = distinct set of unit-cell atoms (the property\'s definition)'])


def run(sc, ctx):
    out = dict(evals=0, compared=0, violations=[], outcomes={}, hashes={h64(sc)}, nontrivial=0, gray_scenarios=0)
    if 'large' in sc:
        cell, pos, el, pp, pel, planted = large_case(sc['large'])
        s = Atoms(elements=el, positions=pos, cell=cell); p = Atoms(elements=pel, positions=pp + np.array([3.3, -1.2, 0.7]))
        (res, err), _ = explorer(ctx).run(lambda: call(find_pattern_in_structure, s, p, atol=0.05), ())
        out['evals'] = 1; out['compared'] = 1
        exp = sorted(tuple(sorted(t)) for t in planted)
        if err:
            out['violations'].append(viol('no-result', 'large-exc:' + exc_sig(err), 'structure of %d atoms: find raised %r' % (len(el), err[0]), sc))
        elif sorted(tuple(sorted(int(i) for i in t)) for t in res) != exp:
            out['violations'].append(viol('found', 'large-structure', 'structure of %d atoms (5 copies of a C-O-H pattern, every other atom is He): reported %r, the occurrences are %r' % (len(el), [tuple(int(i) for i in t) for t in res], exp), sc))
        out['outcomes']['large structure'] = 1; out['nontrivial'] = 1
        return out
    if 'history' in sc:
        # the reference matcher applied to the current content of objects with a past
        e = run_history(sc, ctx)
        desc = dict(history=e['name'], base=HIST_BASES[sc['base']], hints=e['kw'])
        if e.get('alias'):
            out['violations'].append(viol('found', 'history:shared-data', '%s: %s' % (e['name'], e['alias']), sc, case=desc))
        if e.get('skip'):
            out['outcomes']['history skipped'] = 1; return out
        S, Pt = e['S'], e['P']; out['evals'] += 1; out['compared'] += 1
        if e['err']:
            out['violations'].append(viol('no-result', 'history-exc:' + exc_sig(e['err']), 'after the history "%s" the search raised %r' % (e['name'], e['err'][0]), sc, case=desc)); return out
        pp = np.asarray(Pt.positions, float); pel = [str(x) for x in Pt.elements]
        groups = ref_match(np.asarray(S.positions, float), [str(x) for x in S.elements], np.asarray(S.cell, float), pp, pel, e['atol'], cconst_hints(pp, e['kw'].get('axisp1_idx'), e['kw'].get('axisp2_idx'), e['kw'].get('opoint_idx')))
        IN = {g for g, v in groups.items() if v[0] == 'IN'}; GR = {g for g, v in groups.items() if v[0] == 'GRAY'}
        rep = [tuple(sorted(int(i) for i in t)) for t in e['res'][0]]
        if len(set(rep)) != len(rep):
            out['violations'].append(viol('exactly-once', 'history:duplicate', 'after the history "%s": a group is reported twice: %r' % (e['name'], rep), sc, case=desc))
        if IN - set(rep):
            out['violations'].append(viol('found', 'history:missed', 'after the history "%s" (judged on the current content): occurrence(s) %r not reported; reported %r' % (e['name'], sorted(IN - set(rep)), rep), sc, case=desc))
        if set(rep) - IN - GR:
            out['violations'].append(viol('nothing-else', 'history:spurious', 'after the history "%s" (judged on the current content): reported %r, which the structure does not contain; occurrences are %r' % (e['name'], sorted(set(rep) - IN - GR), sorted(IN)), sc, case=desc))
        out['outcomes']['history IN=%d' % len(IN)] = 1; out['nontrivial'] = 1 if IN else 0
        return out
    m = materialise(sc, ctx)
    spec = m['spec']; atol = sc['atol']
    groups = ref_match(spec['pos'], spec['el'], m['cell'], spec['pp'], spec['pel'], atol, cconst(spec['pp']))
    IN = {g for g, v in groups.items() if v[0] == 'IN'}; GR = {g for g, v in groups.items() if v[0] == 'GRAY'}
    if sc.get('special') == 'sheet' and [g for g, v in groups.items() if v[0] != 'OUT'] != [tuple(sorted(spec['planted'][0]))]:
        raise HarnessError('generator: the mirror image of the sheet is not rated OUT: %r' % ({g[:2]: v for g, v in groups.items()},))
    for pl in spec['planted']:
        if tuple(sorted(pl)) not in IN:
            raise HarnessError('generator: planted copy %r is not IN (%r) in %r' % (pl, groups.get(tuple(sorted(pl))), sc))
    out['gray_scenarios'] = 1 if GR else 0
    exs = executions(m, sc, ctx, draw_bound(ctx['tier']))
    for answers, res, err, _ in exs:
        out['evals'] += 1; out['compared'] += 1
        if err:
            out['violations'].append(viol('no-result', 'exc:' + exc_sig(err), 'find_pattern_in_structure raised %r (draw answers %r)' % (err[0], answers), sc, case=describe_case(m, sc), tb=err[1]))
            continue
        rep = [tuple(sorted(int(i) for i in t)) for t in res[0]]
        case = None
        if len(set(rep)) != len(rep):
            dup = sorted({g for g in rep if rep.count(g) > 1})
            out['violations'].append(viol('exactly-once', 'duplicate', 'atom group(s) %r reported more than once: %r (draw answers %r)' % (dup, res[0], answers), sc, case=describe_case(m, sc), answers=list(answers)))
        missed = IN - set(rep)
        if missed:
            out['violations'].append(viol('found', 'missed', 'occurrence(s) %r (max deviation %s, atol %g) not reported; reported %r (draw answers %r)' % (
                sorted(missed), ['%.2g' % groups[g][1] for g in sorted(missed)], atol, res[0], answers), sc, case=describe_case(m, sc), answers=list(answers)))
        spurious = set(rep) - IN - GR
        if spurious:
            out['violations'].append(viol('nothing-else', 'spurious', 'reported group(s) %r lie clearly outside the tolerance (%r) (draw answers %r)' % (
                sorted(spurious), [groups.get(g) for g in sorted(spurious)], answers), sc, case=describe_case(m, sc), answers=list(answers)))
    key = 'IN=%d GRAY=%d OUT=%d' % (len(IN), len(GR), len(groups) - len(IN) - len(GR))
    out['outcomes'][key] = 1
    pl = G.PLACEMENTS[sc['place']]
    if IN and (sc['decoy'] != 'none' or 'layout' in sc or min(pl) < 0.1 or max(pl) > 0.9):
        out['nontrivial'] = 1
    if sc.get('pat') == 'BF3' and sc.get('pose') == 3 and sc['decoy'] == 'second' and sc['cell'] == 3:
        out['samples'] = [dict(case=describe_case(m, sc), reference_groups={str(k): v[0] for k, v in groups.items()}, executions=[dict(answers=list(a), matches=r[0]) for a, r, e, p in exs[:3] if r])]
    return out
