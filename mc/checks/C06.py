"""C06 - force-field terms and coefficients of the replacement arrive intact.

E3 over histories of replacements (depth 2 quick / 3 thorough) on typed 6-atom chains C-N-O-C-N-O in
an orthorhombic and a tilted cell: (i) full tables and terms of all four kinds inside, outside and
across the matched region, (ii) no terms and no tables, (iii) terms without coefficient tables,
(iv) atom types but no pair table and no terms (the CIF workflow) with parameterised patterns,
(v) coefficient tables but zero terms, (vi) extra CIF columns.  Operations: replace with 10 pattern
pairs (terms on retained atoms only / on inserted atoms / mixed, listed forwards and backwards
relative to existing terms, element swap, parameterised self-replacement, empty) x replace_all.
Oracle on every transition: resolved view = RefStructure.replace (every pattern term once between the
corresponding atoms with the pattern's coefficient text, superseded structure terms gone, terms on
removed atoms gone, nothing else) and the same again on the LAMMPS file written from the result.
Plus the documented Example-3 workflow on the real files in docs/examples.
"""
import io, os, itertools
import numpy as np
from mc.checks.common import *
from mc.checks import C09 as B
from mc.checks.C09 import Model as BaseModel, file_view, pattern
from mc.checks.replacelib import REC, explorer, shared_map
from mc.engine import stategraph as SG
from mc.engine.stategraph import Violation
from mc.engine.choices import Divergence
from mc.engine.run import REPO
from mc.ref import lammps as RL
from mofun import replace_pattern_in_structure, find_pattern_in_structure

ENGINE = 'E3 state graph'
TILT = np.array([[20.0, 0, 0], [4.0, 18.0, 0], [3.0, 2.0, 19.0]])
KINDS6 = ['(i) full tables, all term kinds', '(ii) no terms, no tables', '(iii) terms, no coefficient tables', '(iv) atom types but no pair table, no terms; parameterised patterns (CIF workflow)',
          '(v) coefficient tables but zero terms', '(vi) extra CIF columns, tables']
INITS = ['%s, %s cell' % (k, c) for c in ('orthorhombic', 'tilted') for k in KINDS6]
SCALE_INITS = ['(i) behind 1100 bonded He atoms: every term of the chain has a list index beyond 1024',
               '(i) behind 900 unbonded He atoms interleaved with 30 lone O atoms: one call removes 32 atoms spread over 900 indices']
INITS = INITS + SCALE_INITS
STEP = np.array([1.0, 0.1, 0.0])
OFFP = np.array([2.2, -3.0, 0.4])
# (name, search elements, replacement elements, replacement coords (search frame), bonds, angles, dihedrals, impropers)
PAIRS = [
    ('C-N-O -> same + inserted F, mixed terms, one bond reversed', 'CNO', ['C', 'N', 'O', 'F'], [0 * STEP, 1 * STEP, 2 * STEP, (0.5, 0.9, 0.2)], [(1, 0), (1, 2), (0, 3)], [(0, 1, 2), (3, 0, 1)], [(3, 0, 1, 2)], []),
    ('C-N-O -> same, terms on retained atoms only, angle reversed', 'CNO', ['C', 'N', 'O'], [0 * STEP, 1 * STEP, 2 * STEP], [(0, 1)], [(2, 1, 0)], [], []),
    ('C-N-O -> C-N-S (element swap) with bond to the new atom', 'CNO', ['C', 'N', 'S'], [0 * STEP, 1 * STEP, 2 * STEP], [(1, 2)], [], [], []),
    ('C-N-O -> parameterised self (all terms redefined)', 'CNO', ['C', 'N', 'O'], [0 * STEP, 1 * STEP, 2 * STEP], [(0, 1), (2, 1), (2, 0)], [(0, 1, 2)], [], []),
    ('C-N-O -> empty', 'CNO', [], [], [], [], [], []),
    ('N-O-C (across the two halves) -> same with bonds, angle, improper', 'NOC', ['N', 'O', 'C'], [0 * STEP, 1 * STEP, 2 * STEP], [(0, 1), (2, 1)], [(0, 1, 2)], [], []),
    ('O -> S (single-atom swap)', 'O', ['S'], [0 * STEP], [], [], [], []),
    ('O -> O-H (retained + bonded inserted atom)', 'O', ['O', 'H'], [0 * STEP, (0.3, 0.9, 0.1)], [(1, 0)], [], [], []),
    ('C-N-O-C -> same 4 atoms with dihedral and improper reversed', 'CNOC', ['C', 'N', 'O', 'C'], [0 * STEP, 1 * STEP, 2 * STEP, 3 * STEP], [(0, 1)], [], [(3, 2, 1, 0)], [(3, 2, 0, 1)]),
    ('C-N-O -> O, N, C listed in reverse with a bond and an angle', 'CNO', ['O', 'N', 'C'], [2 * STEP, 1 * STEP, 0 * STEP], [(0, 1)], [(0, 1, 2)], [], []),
    ('C-N-O -> same elements, O displaced by 0.03 A (not the same atom) with a bond to it', 'CNO', ['C', 'N', 'O'], [0 * STEP, 1 * STEP, 2 * STEP + np.array([0.0, 0.03, 0.0])], [(1, 2)], [], [], []),
    ('C-N-O -> F first, then the kept C, N, O (substituent listed before the anchors), bonds and angle on the inserted atom', 'CNO', ['F', 'C', 'N', 'O'], [(0.5, 0.9, 0.2), 0 * STEP, 1 * STEP, 2 * STEP], [(0, 1), (2, 1), (3, 2)], [(0, 1, 2)], [], []),
]
SEARCH = {'CNO': ['C', 'N', 'O'], 'NOC': ['N', 'O', 'C'], 'O': ['O'], 'CNOC': ['C', 'N', 'O', 'C']}
KF_SIG = 'CIF-workflow:pair-table-misaligned'


def coeff_only(n, cell):
    a = mk(n, tables=True, kinds=[], cell=cell)
    for k in KINDS:
        setattr(a, k + '_type_coeffs', np.array(['%s_ab_%d  1.5 # c%d' % (k[0], i, i) for i in range(2)]))
    return a


def with_filler(a, n_he, bonded, lone_o):
    """the 6-atom chain `a` stored after a filler: n_he He atoms (bonded in sequence, with angles, using the chain's term
    types 0) and, every 30th position, a lone O atom of the chain's O type; filler 8 A and more away from the chain"""
    els = []; nt = len(a.atom_type_elements)
    o_type = [i for i, e in enumerate(a.atom_type_elements) if e == 'O'][0]
    for i in range(n_he):
        els.append(o_type if (lone_o and i % 30 == 0) else nt)
    nf = len(els)
    pos = np.array([(0.5 + 0.45 * (i % 40), 9.0 + 0.45 * ((i // 40) % 20), 2.0 + 3.0 * (i // 800)) for i in range(nf)])
    kw = dict(atom_types=els + [int(t) for t in a.atom_types], atom_type_elements=list(a.atom_type_elements) + ['He'], atom_type_labels=list(a.atom_type_labels) + ['He_f'],
              atom_type_masses=list(a.atom_type_masses) + [4.0026], positions=np.vstack([pos, np.asarray(a.positions)]), charges=[0.0] * nf + list(a.charges), groups=[3] * nf + list(a.groups), cell=np.array(a.cell))
    if len(a.pair_coeffs):
        kw['pair_coeffs'] = list(a.pair_coeffs) + ['pc_He 0.0']
    he = [i for i in range(nf) if els[i] == nt]
    fill = dict(bond=[(he[i], he[i + 1]) for i in range(len(he) - 1)], angle=[(he[i], he[i + 1], he[i + 2]) for i in range(len(he) - 2)], dihedral=[], improper=[]) if bonded else {k: [] for k in KINDS}
    for k in KINDS:
        t = [tuple(int(x) + nf for x in row) for row in np.asarray(getattr(a, ATTR[k])).reshape(-1, ARITY[k])]
        kw[ATTR[k]] = fill[k] + t
        kw[k + '_types'] = [0] * len(fill[k]) + [int(x) for x in getattr(a, k + '_types')]
        if len(getattr(a, k + '_type_coeffs')):
            kw[k + '_type_coeffs'] = list(getattr(a, k + '_type_coeffs'))
    return Atoms(**kw)


def typed_pattern(pi, tabled):
    name, skey, rel, rpos, bonds, angles, dihedrals, impropers = PAIRS[pi]
    if not rel:
        return Atoms()
    uniq = list(dict.fromkeys(rel)); tag = 'p%d' % pi
    kw = dict(atom_types=[uniq.index(e) for e in rel], atom_type_elements=uniq, atom_type_labels=['%s_%s' % (e, tag) for e in uniq], atom_type_masses=[MASS[e] for e in uniq],
              positions=np.array(rpos, float) + OFFP, charges=[-0.2 * (i + 1) for i in range(len(rel))], groups=[7 + i % 2 for i in range(len(rel))])
    if tabled:
        kw['pair_coeffs'] = ['pc_%s_%s 0.1 # %s' % (tag, e, e) for e in uniq]
    for k, t in zip(KINDS, (bonds, angles, dihedrals, impropers)):
        if t:
            kw[ATTR[k]] = list(t); kw[k + '_types'] = [i % 2 for i in range(len(t))]
            if tabled:
                kw[k + '_type_coeffs'] = ['%s_%s_%d 9.5 # t%d' % (k[0], tag, i, i) for i in range(2)]
    return Atoms(**kw)


class Model(BaseModel):
    def __init__(self, tier):
        self.tier = tier
        self.depth = 2 if tier == 'quick' else 3
        self.full_levels = self.depth

    def initial(self, i):
        if i >= 2 * len(KINDS6):
            j = i - 2 * len(KINDS6)
            a = with_filler(mk(6, True, cell=TILT if j else 20.0), 1100 if j == 0 else 900, bonded=(j == 0), lone_o=(j == 1))
            return dict(a=a, ref=RefStructure.of(a), tabled=True, ptabled=True, civ=False)
        cell = [20.0, TILT][i // len(KINDS6)]; k = i % len(KINDS6)
        a = [lambda: mk(6, True, cell=cell), lambda: mk(6, False, kinds=[], cell=cell), lambda: mk(6, False, cell=cell), lambda: mk(6, False, kinds=[], cell=cell),
             lambda: coeff_only(6, cell), lambda: mk(6, True, xf=True, cell=cell)][k]()
        return dict(a=a, ref=RefStructure.of(a), tabled=(k in (0, 4, 5)), ptabled=(k in (0, 3, 4, 5)), civ=False)

    def ops(self, st, level):
        out = []
        for pi in range(len(PAIRS)):
            for ra in (0, 1):
                out.append(['repl', pi, ra])
        # partial replacement that still selects every match (fraction 0.99 of 2 matches = 2), in both sample orders
        for pi in (0, 3, 7):
            for ans in (0, 1):
                out.append(['repl', pi, 0, 0.99, ans])
        return out

    def apply(self, st, op, step):
        import copy as _copy
        a = _copy.deepcopy(st['a']); ref = st['ref'].copy()      # harness-side clone (Atoms.copy is library code)
        pi, ra = op[1], op[2]
        frac_, ans = (op[3], op[4]) if len(op) > 3 else (1.0, None)
        name, skey, rel, rpos, *_ = PAIRS[pi]
        sel = SEARCH[skey]
        sp = Atoms(elements=sel, positions=np.array([j * STEP for j in range(len(sel))]) + OFFP)
        rp = typed_pattern(pi, st['ptabled'])
        civ = st['civ'] or (len(a.atom_types) > 0 and len(a.pair_coeffs) == 0 and len(rp.atom_types) > 0 and len(rp.pair_coeffs) > 0)
        REC.pop('last', None)
        ex = explorer(dict(seed=0, tier=self.tier))
        inputs = [('the structure', a), ('the search pattern', sp), ('the replacement pattern', rp)]; before = [raw_state(x) for _, x in inputs]
        refrp = RefStructure.of(rp, uid0=0) if rel else None
        try:
            (res, err), trace = ex.run(lambda: call(replace_pattern_in_structure, a, sp, rp, replace_all=bool(ra), replace_fraction=frac_), () if ans is None else (ans,))
        except Divergence:
            raise SG.Disabled()              # this sample answer does not exist in this state (fewer than two matches)
        rec = REC.get('last')
        if rec is not None:
            matches = [tuple(int(i) for i in t) for t in rec[0]]
            used = [x for m in matches for x in m]
            if len(set(used)) != len(used):
                raise SG.Disabled()
            if not matches:
                raise SG.Disabled()          # nothing to replace: not an interesting transition
        if err:
            raise Violation('no-result', 'exc:' + exc_sig(err), '%r (%s) raised %r' % (op, name, err[0]))
        if ans is not None:
            pts = [t for t in trace if t[0].startswith('sample')]
            if len(pts) != 1 or len(matches) != 2 or not pts[0][0].startswith('sample-ordered 2 of 2'):
                raise SG.Disabled()
            matches = [matches[i] for i in list(itertools.permutations(range(2), 2))[pts[0][2]]]
        sh = shared_map(sel, np.array([j * STEP for j in range(len(sel))]), rel, np.array(rpos, float).reshape(-1, 3)) if rel else {}
        uid0 = 10000 * (step + 1)
        bad = untouched(before, inputs)
        if bad:
            raise Violation('untouched', 'input-modified', '%r: %s' % (op, '; '.join(bad)))
        nins = ref.replace(matches, (lambda mi: RefStructure.of(rp, uid0=uid0 + 100 * mi, origin=uid0)) if rel else (lambda mi: None), sh, bool(ra))
        keep = _copy.deepcopy(res)
        bad = alias_probe(res, inputs, 'the returned structure')
        if bad:
            raise Violation('untouched', 'shared-data', '%r: %s' % (op, '; '.join(bad)))
        a = keep
        if nins:
            if len(a.atom_types) != len(ref.atoms):
                raise Violation('resolved-view', 'atom-count', '%r: result has %d atoms, reference %d' % (op, len(a.atom_types), len(ref.atoms)))
            for j in range(len(ref.atoms) - nins, len(ref.atoms)):
                r = ref.atoms[j]['rec']; ref.atoms[j]['rec'] = r[:-1] + (tuple(float(x) for x in a.positions[j]),)
        return dict(a=a, ref=ref, tabled=st['tabled'], ptabled=st['ptabled'], civ=civ)

    def check(self, st):
        if not st['civ']:
            return BaseModel.check(self, st)
        # CIF workflow: the structure's own atom types have no pair coefficients while the pattern's have.
        # Everything except the pair coefficients is checked as usual on a copy without pair table ...
        a = st['a']; ref = st['ref']
        b = a.copy(); b.pair_coeffs = np.array([])
        r2 = ref.copy()
        for at in r2.atoms:
            at['rec'] = at['rec'][:3] + (None,) + at['rec'][4:]
        BaseModel.check(self, dict(a=b, ref=r2, tabled=st['tabled']))
        # ... and the pair coefficients on their own: every atom taken from a pattern must resolve to its text,
        # and the LAMMPS file must carry one Pair Coeffs line per declared atom type
        want = [x['rec'][3] for x in ref.atoms]
        npair = len(a.pair_coeffs)
        for i, w in enumerate(want):
            t = int(a.atom_types[i])
            got = str(a.pair_coeffs[t]) if t < npair else None
            if w is not None and (got is None or got.split() != w.split()):
                raise Violation('resolved-view', KF_SIG, 'atom %d taken from the pattern resolves to pair coefficients %r, the pattern says %r (pair table has %d entries for %d atom types)' % (
                    i, got, w, npair, len(a.atom_type_elements)))
        if npair and npair != len(a.atom_type_elements):
            raise Violation('lammps-writable', KF_SIG, 'LAMMPS file would carry %d Pair Coeffs lines for %d atom types' % (npair, len(a.atom_type_elements)))

    def key(self, st):
        return (raw_state(st['a']), st['ref'].view(), st['civ'])


_M = {}


def model(tier):
    if tier not in _M:
        _M[tier] = Model(tier)
    return _M[tier]


def plan(tier, seed):
    m = model(tier)
    scs = [dict(init=i, first=op) for i in range(len(INITS)) for op in m.ops(None, 0) if i < 2 * len(KINDS6) or len(op) == 3]      # scale states: every pair x replace_all once (depth 1)
    scs.append(dict(example3=True))
    return dict(scenarios=scs, exhaustive=True, chunk=1, timeout=7200,
                menus=dict(initial_states=INITS, pattern_pairs=[p[0] for p in PAIRS], replace_all=[0, 1], real='docs Example 3: uio66.cif, metal centre then linker (parameterised lmpdat patterns)'),
                bounds=dict(depth=m.depth, atoms=6),
                rule='one scenario per (initial state, first replacement); breadth-first search over further replacements; non-trivial = distinct states',
                assumptions=['inside the compatibility domain: per term kind both tabled, neither tabled, or one side without terms; case (iv) is the documented CIF workflow',
                             'matches are non-overlapping (overlapping histories are disabled: C07)', 'positions of inserted atoms are taken from the result (C05)'])


def example3(out, sc):
    """documented workflow: unparameterised CIF, parameterised metal centre then linker"""
    d = os.path.join(REPO, 'docs', 'examples')
    s = Atoms.load(os.path.join(d, 'uio66.cif'))
    steps = [('uio66-metal-center.cml', 'uio66-metal-center-parameterized.lmpdat'), ('uio66-linker-Zr.cml', 'uio66-linker-Zr-parameterized.lmpdat')]
    ref = RefStructure.of(s); a = s
    ex = explorer(dict(seed=0, tier='quick'))
    for si, (sf, rf) in enumerate(steps):
        sp = Atoms.load(os.path.join(d, sf)); rp = Atoms.load(os.path.join(d, rf), atom_format='full')
        sp = Atoms(elements=list(sp.elements), positions=np.asarray(sp.positions))
        REC.pop('last', None)
        (res, err), _ = ex.run(lambda: call(replace_pattern_in_structure, a, sp, rp), ())
        out['evals'] += 1; out['compared'] += 1
        if err:
            out['violations'].append(viol('no-result', 'example3-exc:' + exc_sig(err), 'Example 3 step %d raised %r' % (si, err[0]), sc)); return
        rec = REC['last']; matches = [tuple(int(i) for i in t) for t in rec[0]]
        out['outcomes']['example3 step %d matches=%d' % (si, len(matches))] = 1
        if not matches:
            out['violations'].append(viol('no-result', 'example3-no-match', 'Example 3 step %d finds no occurrence of %s' % (si, sf), sc)); return
        sh = shared_map(list(sp.elements), np.asarray(sp.positions), list(rp.elements), np.asarray(rp.positions))
        used = [x for m in matches for x in set(m) - {m[j] for j in sh.values()}]
        if len(set(used)) != len(used):
            out['violations'].append(viol('no-result', 'example3-overlap', 'Example 3 step %d: deletion sets overlap' % si, sc)); return
        uid0 = 100000 * (si + 1)
        nins = ref.replace(matches, lambda mi: RefStructure.of(rp, uid0=uid0 + 1000 * mi, origin=uid0), sh, False)
        a = res
        try:
            b = a.copy(); b.pair_coeffs = np.array([])
            r2 = ref.copy()
            for at in r2.atoms:
                at['rec'] = at['rec'][:3] + (None,) + at['rec'][4:]
            va = view(b)
            if nins:
                fa, ft = r2.view()
                for j in range(len(fa) - nins, len(fa)):
                    r2.atoms[j]['rec'] = r2.atoms[j]['rec'][:-1] + (tuple(float(x) for x in a.positions[j]),)
            dd = compare_views(va, r2.view(), pos_tol=1e-6)
        except Inconsistent as e:
            dd = 'inconsistent (%s): %s' % (e.clause, e)
        if dd:
            out['violations'].append(viol('resolved-view', 'example3', 'Example 3 after step %d: %s' % (si, dd), sc)); return
        want = [x['rec'][3] for x in ref.atoms]; npair = len(a.pair_coeffs)
        for i, w in enumerate(want):
            t = int(a.atom_types[i]); got = str(a.pair_coeffs[t]) if t < npair else None
            if w is not None and (got is None or got.split() != w.split()):
                out['violations'].append(viol('resolved-view', KF_SIG, 'Example 3 after step %d: atom %d taken from the pattern resolves to pair coefficients %r, the pattern says %r (pair table has %d entries for %d atom types)' % (
                    si, i, got, w, npair, len(a.atom_type_elements)), sc)); break
    out['nontrivial'] += 1
    out['samples'] = [dict(example3='uio66.cif -> metal centre -> linker', atoms=len(a.atom_types), bonds=len(a.bonds), angles=len(a.angles), dihedrals=len(a.dihedrals), impropers=len(a.impropers))]


def run(sc, ctx):
    m = model(ctx['tier'])
    out = dict(evals=0, compared=0, violations=[], outcomes={}, hashes=set(), nontrivial=0)
    if sc.get('example3'):
        example3(out, sc); out['hashes'] = {h64('example3')}
        return out
    stats = dict(transitions=0, violating_transitions=0, max_depth=0, replays=0)
    if 'history' in sc:
        st, bad = SG.replay(m, sc['init'], sc['history'])
        out['evals'] = len(sc['history']); out['compared'] = out['evals']
        if bad:
            v = bad[1]
            out['violations'].append(viol(v.clause, v.sig, 'history %r from "%s": step %d: %s' % ([PAIRS[o[1]][0] + (' (replace_all)' if o[2] else '') + (' (fraction %g, sample answer %d)' % (o[3], o[4]) if len(o) > 3 else '') for o in sc['history']], INITS[sc['init']], bad[0], v.msg), sc))
        return out
    seen, viols = SG.bfs(m, sc['init'], [sc['first']], 1 if sc['init'] >= 2 * len(KINDS6) else m.depth, stats, max_violations=3)
    out['hashes'] = seen; out['evals'] = stats['transitions']; out['compared'] = stats['transitions'] + stats['replays']
    out['violating_transitions'] = stats['violating_transitions']; out['max_depth'] = stats['max_depth']; out['disabled_transitions'] = stats.get('disabled', 0)
    for hist, v in viols:
        out['violations'].append(viol(v.clause, v.sig, 'history %r from "%s": %s' % ([PAIRS[o[1]][0] + (' (replace_all)' if o[2] else '') + (' (fraction %g, sample answer %d)' % (o[3], o[4]) if len(o) > 3 else '') for o in hist], INITS[sc['init']], v.msg), dict(init=sc['init'], history=hist)))
    out['outcomes']['init=%s pair=%d' % (sc['init'] % len(KINDS6) if sc['init'] < 2 * len(KINDS6) else 'scale', sc['first'][1])] = 1
    out['nontrivial_hashes'] = set(seen)       # distinct states, counted once across scenarios
    if sc['init'] == 0 and sc['first'] == ['repl', 0, 0]:
        out['samples'] = [dict(initial=INITS[0], first=PAIRS[0][0], states_below=len(seen))]
    return out
