"""C18 - UFF parameters follow the published formulas for every type combination.

Finite domain.  Pairs: all N^2 ordered pairs x bond order {guessed, 1, 1.5, 2} x rule sets {none,
matching, non-matching}.  Triples: all N^3 ordered triples (both tiers) + explicit bond orders on a
sub-table.  Quadruples: quick: all N^2 central pairs x outer pairs from one representative per
class; thorough: all N^4 ordered quadruples; x multiplicities on the quick set.  Pair coefficients:
all N types.  Oracle: mc/ref/uff.py; values within 1e-9 relative; positivity; style; reversal.
"""
import math, itertools
import numpy as np
from mc.checks.common import *
from mc.ref.uff import RefUFF, same_params, close
import mofun.rough_uff as ru
from mofun.uff4mof import UFF4MOF, MAIN_GROUP_ELEMENTS

ENGINE = 'E1 product'
REF = RefUFF(UFF4MOF, MAIN_GROUP_ELEMENTS)
K = REF.K; N = REF.N
BOS = [None, 1, 1.5, 2]
MS = [2, 3, 4, 6, 9]


HISTORIES = [[(1.41, 'rule'), (1.44, 'rule'), (1.38, 'explicit'), (1.41, 'explicit')], [(None, 'guess'), (1.46, 'rule'), (1.5, 'explicit'), (1.54, 'explicit'), (None, 'guess')],
             [(2, 'explicit'), (1.96, 'rule'), (2.04, 'explicit'), (1, 'explicit'), (1.04, 'rule'), (0.96, 'explicit')], [(0.25, 'explicit'), (0.26, 'explicit'), (0.5, 'rule'), (0.49, 'rule')]]


def worker_init(ctx):
    ru.print = lambda *a, **k: None      # harness-side: silence the per-call prints of dihedral_params


def outer_reps():
    """one representative per (hybridisation character, oxygen group?, main group?) class"""
    reps = {}
    for i, k in enumerate(K):
        reps.setdefault((REF.h[i], REF.el[i] in {'O', 'S', 'Se', 'Te', 'Po'}, REF.main[i]), i)
    return sorted(reps.values())


def plan(tier, seed):
    scs = [dict(kind='pairs', i=i) for i in range(N)] + [dict(kind='triples', j=j) for j in range(N)]
    sub = list(range(0, N, 5))
    scs += [dict(kind='triples-bo', j=j) for j in sub]
    scs += [dict(kind='triples-rules', j=j) for j in sub]
    scs += [dict(kind='quads-bo', j=j) for j in range(N)]
    scs.append(dict(kind='paircoeffs'))
    scs += [dict(kind='pairs-history', i=i) for i in range(N)]
    scs += [dict(kind='rules-edited', i=i) for i in range(0, N, 3)] + [dict(kind='results-edited')]
    if tier == 'quick':
        scs += [dict(kind='quads', j=j, k=None) for j in range(N)]
    else:
        scs += [dict(kind='quads', j=j, k=k) for j in range(N) for k in range(j, N)]
    scs += [dict(kind='quads-M', j=j) for j in range(N)]
    reps = outer_reps()
    return dict(scenarios=scs, exhaustive=True, chunk=8 if tier == 'thorough' else 4,
                menus=dict(types=N, bond_orders=['guessed', 1, 1.5, 2], rule_sets=['none', 'matching rule', 'non-matching rule', 'rules naming a superset / a mixed pair with another type (must not match)', 'three rules, the second matches (first match wins)'], multiplicities=[1] + MS, pair_call_histories=[repr(h) for h in HISTORIES],
                           outer_representatives=[K[i] for i in reps], triple_bond_order_subtable=len(sub),
                           quadruples='all %d^4 ordered quadruples' % N if tier == 'thorough' else 'all %d^2 central pairs x %d^2 outer representatives' % (N, len(reps))),
                bounds=dict(), rule='every ordered pair / triple / quadruple of the parameter table is one case; non-trivial = the combination takes a special-case branch (non-default bond order, cosine/periodic angle, torsion other than the default mixed case)',
                assumptions=['the UFF4MOF table and MAIN_GROUP_ELEMENTS are the parameter of the property (read from the repo)',
                             '"identical" under reversal = same style / integers / None / exception and floats within relative 1e-9 (the pinned code is 1-ulp asymmetric)',
                             'reference equations mc/ref/uff.py written from Rappe et al. 1992'])


def V(out, sc, clause, sig, msg, **kw):
    if len(out['violations']) < 30:
        out['violations'].append(viol(clause, sig, msg, sc, **kw))
    else:
        out['more_violations'] = out.get('more_violations', 0) + 1


def tor(a, b, c, d, **kw):
    try:
        return ru.dihedral_params(a, b, c, d, **kw)
    except HarnessError:
        raise
    except Exception as e:
        return 'unsupported' if type(e) is Exception and 'know how to handle' in str(e) else 'exc:%s' % type(e).__name__


def run(sc, ctx):
    out = dict(evals=0, compared=0, violations=[], outcomes={}, states=0, nontrivial=0)
    oc = out['outcomes']
    kind = sc['kind']
    if kind == 'pairs':
        i = sc['i']; a = K[i]
        for j, b in enumerate(K):
            for bo in BOS:
                other = K[(i + 7) % N] if K[(i + 7) % N] not in (a, b) else K[(i + 8) % N]
                for rules, rname in ((None, 'none'), ([({a, b}, 2)], 'match'), ([({'Zz_1', 'Qq'}, 3)], 'nomatch'),
                                     ([({a, b, other}, 2), ({a, other}, 2), ({other}, 2)], 'nomatch-superset'), ([({a, other}, 1.5), ({a, b}, 2), ({a, b}, 1)], 'match-second-of-three')):
                    if bo is not None and rules is not None:
                        continue
                    eff = bo if bo is not None else (2.0 if rname.startswith('match') else REF.BO[i, j])
                    ri, rj = REF.r[i], REF.r[j]
                    rbo = -0.1332 * (ri + rj) * math.log(eff)
                    ren = ri * rj * (math.sqrt(REF.chi[i]) - math.sqrt(REF.chi[j])) ** 2 / (REF.chi[i] * ri + REF.chi[j] * rj)
                    rij = ri + rj + rbo - ren; kexp = 664.12 * REF.Z[i] * REF.Z[j] / rij ** 3 / 2
                    got, err = call(ru.bond_params, a, b, bond_order=bo, bond_order_rules=rules)
                    rev, err2 = call(ru.bond_params, b, a, bond_order=bo, bond_order_rules=rules)
                    out['evals'] += 2; out['compared'] += 1; out['states'] += 1
                    if err or err2:
                        V(out, sc, 'bond', 'exc', 'bond_params(%s,%s,bo=%s) raised %r' % (a, b, bo, (err or err2)[0])); continue
                    if not (close(got[0], kexp) and close(got[1], rij)):
                        V(out, sc, 'bond', 'value', 'bond_params(%s, %s, bond_order=%s, rules=%s) = %r, UFF eqs. 2,3,6,7 give (%r, %r)' % (a, b, bo, rname, got, kexp, rij))
                    if not (got[0] > 0 and got[1] > 0 and math.isfinite(got[0]) and math.isfinite(got[1])):
                        V(out, sc, 'bond', 'positivity', 'bond_params(%s, %s) = %r is not positive and finite' % (a, b, got))
                    if not same_params(got, rev):
                        V(out, sc, 'bond', 'reversal', 'bond_params(%s,%s)=%r but bond_params(%s,%s)=%r' % (a, b, got, b, a, rev))
                    if bo is None and rules is None:
                        g, _ = call(ru.guess_bond_order, a, b)
                        if g != REF.BO[i, j]:
                            V(out, sc, 'bond', 'bond-order-guess', 'guess_bond_order(%s,%s)=%r, documented guess %r' % (a, b, g, REF.BO[i, j]))
                        oc['bo=%g' % REF.BO[i, j]] = oc.get('bo=%g' % REF.BO[i, j], 0) + 1
                        out['nontrivial'] += REF.BO[i, j] != 1.0
        if sc['i'] == 10:
            out['samples'] = [dict(kind='pair', types=[a, K[3]], bond_params=list(ru.bond_params(a, K[3])))]
        return out
    if kind == 'rules-edited':
        # ONE rules list object, edited in place between calls (a rule appended, retuned, removed): every call must use the list as it is now
        i = sc['i']; a = K[i]
        def expect(i, j, rules):
            for types, bo in rules:
                if {K[i], K[j]} == set(types):
                    return bo
            return REF.BO[i, j]
        for j in range(0, N, 2):
            b = K[j]; c = K[(j + 11) % N]
            rules = [({a, c}, 1.5)] if c != b else []
            edits = [lambda r: r.append(({a, b}, 2)), lambda r: r.__setitem__(len(r) - 1, ({a, b}, 1.25)), lambda r: r.insert(0, ({a, b}, 0.5)), lambda r: r.pop(0), lambda r: r.clear()]
            for step in range(len(edits) + 1):
                eff = expect(i, j, rules)
                ri, rj = REF.r[i], REF.r[j]
                rij = ri + rj - 0.1332 * (ri + rj) * math.log(eff) - ri * rj * (math.sqrt(REF.chi[i]) - math.sqrt(REF.chi[j])) ** 2 / (REF.chi[i] * ri + REF.chi[j] * rj)
                kexp = 664.12 * REF.Z[i] * REF.Z[j] / rij ** 3 / 2
                got, err = call(ru.bond_params, a, b, bond_order_rules=rules)
                g2, err2 = call(ru.guess_bond_order, a, b, rules)
                out['evals'] += 2; out['compared'] += 1; out['states'] += 1
                if err or err2:
                    V(out, sc, 'bond', 'rules-exc', 'bond_params(%s,%s) with the rules list %r raised %r' % (a, b, rules, (err or err2)[0]))
                elif not (close(got[0], kexp) and close(got[1], rij)) or g2 != eff:
                    V(out, sc, 'bond', 'rules-edited', 'after %d in-place edit(s) of the rules list (now %r): bond_params(%s, %s) = %r and guess_bond_order = %r; with the list as it is the bond order is %r and UFF gives (%r, %r)' % (step, rules, a, b, got, g2, eff, kexp, rij))
                if step < len(edits):
                    edits[step](rules)
            out['nontrivial'] += 1
        oc['rules list edited in place'] = oc.get('rules list edited in place', 0) + 1
        return out
    if kind == 'results-edited':
        # values handed out must be the caller's own: writing into a returned list / tuple-of-lists must not change what later calls return
        for i, a in enumerate(K):
            first, err = call(ru.pair_coeffs, a)
            if err or first is None:
                continue
            snap = list(first) if isinstance(first, (list, tuple)) else first
            if isinstance(first, list):
                for q in range(len(first)):
                    try:
                        first[q] = first[q] * 4.184 if isinstance(first[q], (int, float)) else first[q]
                    except Exception:
                        pass
            again, err = call(ru.pair_coeffs, a)
            out['evals'] += 2; out['compared'] += 1; out['states'] += 1
            if err or (list(again) if isinstance(again, (list, tuple)) else again) != snap:
                V(out, sc, 'pair', 'results-edited', 'pair_coeffs(%s) returned %r; after the caller wrote into that list the next call returns %r' % (a, snap, err[0] if err else again))
        for i in range(0, N, 7):
            for j in range(0, N, 5):
                first, err = call(ru.bond_params, K[i], K[j]); second, err2 = call(ru.bond_params, K[i], K[j])
                if not err and not err2 and isinstance(first, list):
                    snap = list(second); first[0] = -1.0; first[1] = -1.0
                    third, _ = call(ru.bond_params, K[i], K[j])
                    if list(third) != snap:
                        V(out, sc, 'bond', 'results-edited', 'bond_params(%s,%s): writing into a returned list changed the next result %r -> %r' % (K[i], K[j], snap, third))
        oc['returned values edited'] = 1; out['nontrivial'] += 1
        return out
    if kind == 'pairs-history':
        # call histories in one process: the same ordered pair evaluated again and again with bond orders that lie close together
        # (given explicitly and through rules); every answer must be the formula for *this* call's bond order
        i = sc['i']; a = K[i]
        for j, b in enumerate(K):
            for hist in HISTORIES:
                for step, (bo, via) in enumerate(hist):
                    eff = REF.BO[i, j] if bo is None else bo
                    ri, rj = REF.r[i], REF.r[j]
                    rbo = -0.1332 * (ri + rj) * math.log(eff)
                    ren = ri * rj * (math.sqrt(REF.chi[i]) - math.sqrt(REF.chi[j])) ** 2 / (REF.chi[i] * ri + REF.chi[j] * rj)
                    rij = ri + rj + rbo - ren; kexp = 664.12 * REF.Z[i] * REF.Z[j] / rij ** 3 / 2
                    if bo is None:
                        got, err = call(ru.bond_params, a, b)
                    elif via == 'explicit':
                        got, err = call(ru.bond_params, a, b, bond_order=bo)
                    else:
                        got, err = call(ru.bond_params, a, b, bond_order_rules=[({a, b}, bo)])
                    out['evals'] += 1; out['compared'] += 1; out['states'] += 1
                    if err:
                        V(out, sc, 'bond', 'history-exc', 'bond_params(%s,%s) with bond order %s (%s) raised %r' % (a, b, bo, via, err[0])); continue
                    if not (close(got[0], kexp) and close(got[1], rij)):
                        V(out, sc, 'bond', 'history-value', 'call %d of the history %r: bond_params(%s, %s) with bond order %s (%s) = %r, UFF eqs. 2,3,6,7 give (%r, %r)' % (step + 1, hist, a, b, bo, via, got, kexp, rij))
            out['nontrivial'] += 1
        oc['pair histories'] = oc.get('pair histories', 0) + N * len(HISTORIES)
        return out
    if kind in ('triples', 'triples-bo'):
        j = sc['j']; b = K[j]
        combos = [(None, None)] if kind == 'triples' else [(x, y) for x in (1, 1.5, 2) for y in (1, 1.5, 2)]
        idx = list(range(N)) if kind == 'triples' else list(range(0, N, 5))
        for bo1, bo2 in combos:
            rij = None if bo1 is None else REF.bonds(bo1)[1][:, j][:, None]
            rjk = None if bo2 is None else REF.bonds(bo2)[1][j, :][None, :]
            style, kijk, tail = REF.angle_slab(j, rij, rjk)
            res = {}
            for i in idx:
                a = K[i]
                for k in idx:
                    c = K[k]
                    try:
                        p = ru.angle_params(a, b, c) if bo1 is None else ru.angle_params(a, b, c, bond_orders=[bo1, bo2])
                    except Exception as e:
                        V(out, sc, 'angle', 'exc', 'angle_params(%s,%s,%s) raised %r' % (a, b, c, e)); continue
                    res[i, k] = p
                    ok = p[0] == style and close(p[1], kijk[i, k]) and len(p) == 2 + len(tail)
                    if ok and style == 'fourier':
                        ok = all(close(float(x), y) or abs(float(x) - y) < 1e-12 for x, y in zip(p[2:], tail))
                    elif ok:
                        ok = tuple(p[2:]) == tail
                    if not ok:
                        V(out, sc, 'angle', 'value' if p[0] == style else 'style', 'angle_params(%s, %s, %s, bond_orders=%s) = %r, UFF gives (%s, %r, %r)' % (a, b, c, [bo1, bo2], p, style, kijk[i, k], tail))
                    if not (p[1] > 0 and math.isfinite(p[1])):
                        V(out, sc, 'angle', 'positivity', 'angle_params(%s, %s, %s) force constant %r is not positive and finite' % (a, b, c, p[1]))
            out['evals'] += len(res); out['compared'] += len(res); out['states'] += len(res)
            for (i, k), p in res.items():
                if i < k and (k, i) in res and bo1 == bo2 and not same_params(p, res[k, i]):
                    V(out, sc, 'angle', 'reversal', 'angle_params(%s,%s,%s)=%r but reversed gives %r' % (K[i], b, K[k], p, res[k, i]))
            oc[style] = oc.get(style, 0) + len(res)
            out['nontrivial'] += len(res) if style != 'fourier' else 0
        if j == 12 and kind == 'triples':
            out['samples'] = [dict(kind='triple', types=[K[1], b, K[7]], angle_params=list(ru.angle_params(K[1], b, K[7])))]
        return out
    if kind == 'triples-rules':
        # a user rule that matches exactly one of the two bonds (or both when the outer types coincide)
        j = sc['j']; b = K[j]; idx = list(range(0, N, 5))
        r2 = REF.bonds(2.0)[1]
        for which in (0, 1):
            for i in idx:
                for k in idx:
                    a, c = K[i], K[k]
                    rule_pair = {a, b} if which == 0 else {b, c}
                    rij = r2[i, j] if {a, b} == rule_pair else REF.rb[i, j]
                    rjk = r2[j, k] if {b, c} == rule_pair else REF.rb[j, k]
                    style, kijk, tail = REF.angle_slab(j, np.full((N, 1), rij), np.full((1, N), rjk))
                    try:
                        p = ru.angle_params(a, b, c, bond_order_rules=[(rule_pair, 2)])
                    except Exception as e:
                        V(out, sc, 'angle', 'exc', 'angle_params(%s,%s,%s, rules) raised %r' % (a, b, c, e)); continue
                    out['evals'] += 1; out['compared'] += 1; out['states'] += 1
                    if p[0] != style or not close(p[1], kijk[i, k]):
                        V(out, sc, 'angle', 'rules', 'angle_params(%s, %s, %s, bond_order_rules=[(%r, 2)]) = %r, UFF with that rule gives (%s, %r)' % (a, b, c, sorted(rule_pair), p, style, kijk[i, k]))
        oc['angle with rule'] = oc.get('angle with rule', 0) + 2 * len(idx) ** 2; out['nontrivial'] += 2 * len(idx) ** 2
        return out
    if kind == 'quads-bo':
        j = sc['j']; reps = outer_reps()[::4]
        for k in range(j, N):
            b, c = K[j], K[k]
            for bo, rules, eff in ((1, None, 1.0), (1.5, None, 1.5), (2, None, 2.0), (None, [({b, c}, 2)], 2.0), (None, [({'Zz_1', 'Qq'}, 3)], None)):
                for i in reps:
                    for l in reps:
                        kw = {}
                        if bo is not None:
                            kw['bond_order'] = bo
                        if rules is not None:
                            kw['bond_order_rules'] = rules
                        p = tor(K[i], b, c, K[l], **kw); q = tor(K[l], c, b, K[i], **kw)
                        exp = REF.torsion(i, j, k, l, bo=eff)
                        out['evals'] += 2; out['compared'] += 1; out['states'] += 1
                        if not same_params(p, exp):
                            V(out, sc, 'torsion', 'bond-order', 'dihedral_params(%s, %s, %s, %s, bond_order=%r, rules=%r) = %r, UFF gives %r' % (K[i], b, c, K[l], bo, rules and 'rule', p, exp))
                        if not same_params(p, q):
                            V(out, sc, 'torsion', 'reversal', 'dihedral_params(%s,%s,%s,%s, bond_order=%r) = %r but reversed gives %r' % (K[i], b, c, K[l], bo, p, q))
        oc['torsion with bond order'] = oc.get('torsion with bond order', 0) + 1; out['nontrivial'] += (N - j) * 5 * len(reps) ** 2
        return out
    if kind == 'paircoeffs':
        for i, a in enumerate(K):
            got, err = call(ru.pair_coeffs, a)
            out['evals'] += 1; out['compared'] += 1; out['states'] += 1
            exp = REF.pair(i)
            if err or len(got) != 2 or not (close(got[0], exp[0]) and close(got[1], exp[1])):
                V(out, sc, 'pair', 'value', 'pair_coeffs(%s) = %r, Lennard-Jones conversion gives %r' % (a, err[0] if err else got, exp))
        oc['pair'] = N
        return out
    if kind in ('quads', 'quads-M'):
        j = sc['j']
        reps = outer_reps()
        if kind == 'quads-M':
            ks = range(j, N); outer = reps[::3]; Ms = MS
        elif sc['k'] is None:
            ks = range(j, N); outer = reps; Ms = [1]
        else:
            ks = [sc['k']]; outer = range(N); Ms = [1]
        for k in ks:
            b, c = K[j], K[k]
            for M in Ms:
                kw = {} if M == 1 else dict(num_dihedrals_about_bond=M)
                fwd = {}; bwd = {}
                for i in outer:
                    a = K[i]
                    for l in outer:
                        fwd[i, l] = tor(a, b, c, K[l], **kw)
                        if j != k:
                            bwd[i, l] = tor(a, c, b, K[l], **kw)
                if j == k:
                    bwd = fwd
                out['evals'] += len(fwd) * (1 if j == k else 2); out['states'] += len(fwd) * (1 if j == k else 2)
                for (i, l), p in fwd.items():
                    exp = REF.torsion(i, j, k, l, M=M)
                    out['compared'] += 1
                    if not same_params(p, exp):
                        V(out, sc, 'torsion', 'value' if (p is not None and not isinstance(p, str) and exp is not None and not isinstance(exp, str)) else 'case',
                          'dihedral_params(%s, %s, %s, %s, M=%d) = %r, UFF case table gives %r' % (K[i], b, c, K[l], M, p, exp))
                    q = bwd[l, i]
                    if not same_params(p, q):
                        V(out, sc, 'torsion', 'reversal', 'dihedral_params(%s,%s,%s,%s)=%r but reversed order gives %r' % (K[i], b, c, K[l], p, q))
                    key = 'None' if p is None else (p if isinstance(p, str) else 'n=%d d=%d' % (p[3], p[2]))
                    oc[key] = oc.get(key, 0) + 1
                    out['nontrivial'] += key != 'n=6 d=-1'
                if j != k:
                    for (i, l), p in bwd.items():
                        out['compared'] += 1
                        exp = REF.torsion(i, k, j, l, M=M)
                        if not same_params(p, exp):
                            V(out, sc, 'torsion', 'value', 'dihedral_params(%s, %s, %s, %s, M=%d) = %r, UFF case table gives %r' % (K[i], c, b, K[l], M, p, exp))
        if j == 20 and kind == 'quads':
            out['samples'] = [dict(kind='quadruple', types=[K[20], K[j], K[25], K[30]], dihedral_params=repr(tor(K[20], K[j], K[25], K[30])))]
        return out
    raise HarnessError('unknown scenario kind %r' % kind)
