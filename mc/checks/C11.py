"""C11 - extending a structure appends atoms and re-targets terms correctly.

E1, exhaustive: pairs (A, B) of small structures x every injective partial identity map B->A x mode
{default merge, explicit offsets from extend_types, same fragment twice (with offsets; second time
unmapped / mapped again), ids already shared (0,0,0,0,0)} x B's terms listed forwards / reversed.
Oracle: RefStructure.extend; B must be left unmodified.
"""
import itertools
import numpy as np
from mc.checks.common import *

ENGINE = 'E1 product'


def coeff_only(n, tag='ab'):
    """coefficient tables present but zero terms of every kind (consistent input)"""
    a = mk(n, tables=True, tag=tag, kinds=[])
    for k in KINDS:
        setattr(a, k + '_type_coeffs', np.array(['%s_%s_%d  1.5 # c%d' % (k[0], tag, i, i) for i in range(2)]))
    return a


def emptied(n, tables):
    a = mk(n, tables); del a[list(range(n))]
    return a


A_MENU = [
    ('empty Atoms()', lambda: Atoms(), None),
    ('all atoms deleted, type tables remain', lambda: emptied(2, True), True),
    ('all atoms deleted, no coefficient tables', lambda: emptied(2, False), False),
    ('1 atom, tables', lambda: mk(1, True), True),
    ('3 atoms, tables', lambda: mk(3, True), True),
    ('4 atoms, tables, extra columns', lambda: mk(4, True, xf=True), True),
    ('3 atoms, no tables', lambda: mk(3, False), False),
    ('4 atoms, no tables, extra columns', lambda: mk(4, False, xf=True), False),
    ('3 atoms, coefficient tables but no terms', lambda: coeff_only(3), True),
    ('4 atoms, tables, one type per kind', lambda: mk(4, True, two_types=False), True),
    ('4 atoms, tables, bonds + impropers only', lambda: mk(4, True, kinds=['bond', 'improper']), True),
    ('4 atoms, no tables, angles + dihedrals only', lambda: mk(4, False, kinds=['angle', 'dihedral']), False),
]
B_MENU = [
    ('1 atom, tables', lambda: mk(1, True, 'xy', q0=-0.3, shift=7.0), True),
    ('2 atoms, tables', lambda: mk(2, True, 'xy', q0=-0.3, shift=7.0), True),
    ('3 atoms, tables', lambda: mk(3, True, 'xy', q0=-0.3, shift=7.0), True),
    ('3 atoms, tables, extra columns (one label shared with A)', lambda: mk(3, True, 'xy-much-longer-values', q0=-0.3, shift=7.0, xf=True), True),
    ('4 atoms, tables', lambda: mk(4, True, 'xy', q0=-0.3, shift=7.0), True),
    ('3 atoms, tables, the same extra labels as A with longer values', lambda: mk(3, True, 'ab-much-longer-values', q0=-0.3, shift=7.0, xf=True), True),
    ('1 atom, no tables', lambda: mk(1, False, 'xy', q0=-0.3, shift=7.0), False),
    ('2 atoms, no tables', lambda: mk(2, False, 'xy', q0=-0.3, shift=7.0), False),
    ('3 atoms, no tables, extra columns', lambda: mk(3, False, 'xy-much-longer-values', q0=-0.3, shift=7.0, xf=True), False),
    ('4 atoms, no tables', lambda: mk(4, False, 'xy', q0=-0.3, shift=7.0), False),
    ('4 atoms, impropers only, tables', lambda: mk(4, True, 'xy', q0=-0.3, shift=7.0, kinds=['improper']), True),
    ('3 atoms, angles only, tables', lambda: mk(3, True, 'xy', q0=-0.3, shift=7.0, kinds=['angle']), True),
    ('4 atoms, dihedrals + impropers only, no tables', lambda: mk(4, False, 'xy', q0=-0.3, shift=7.0, kinds=['dihedral', 'improper']), False),
    ('4 atoms, angles + impropers only, tables', lambda: mk(4, True, 'xy', q0=-0.3, shift=7.0, kinds=['angle', 'improper']), True),
]
MODES = ['default', 'offsets', 'twice', 'twice-mapped', 'shared']


def maps(nb, na):
    for r in range(0, min(na, nb) + 1):
        for src in itertools.combinations(range(nb), r):
            for dst in itertools.permutations(range(na), r):
                yield [list(p) for p in zip(src, dst)]


def plan(tier, seed):
    scs = []
    maxb = 3 if tier == 'quick' else 4
    for ai, (an, amk, atab) in enumerate(A_MENU):
        na = len(amk())
        for mode in MODES:
            if mode == 'shared':
                if na == 0:
                    continue
                for m in maps(na, na):
                    if tier == 'quick' and len(m) > 2:
                        continue
                    scs.append(dict(A=ai, B=-1, mode=mode, rev=0, map=m))
                continue
            for bi, (bn, bmk, btab) in enumerate(B_MENU):
                nb = len(bmk())
                if (nb > maxb and 'only' not in bn) or (atab is not None and atab != btab):
                    continue
                for rev in (0, 1):
                    for m in maps(nb, na):
                        scs.append(dict(A=ai, B=bi, mode=mode, rev=rev, map=m))
    scs += [dict(scale=i) for i in range(5)]
    scs += [dict(reuse=[ai, bi, mi, order, via]) for ai in range(3) for bi in range(3) for mi in range(3) for order in (0, 1) for via in ('default', 'offsets')]
    return dict(scenarios=scs, exhaustive=True, chunk=200,
                menus=dict(A=[x[0] for x in A_MENU], B=[x[0] for x in B_MENU], modes=MODES, term_direction=['as listed', 'reversed'],
                           maps='every injective partial map B->A' + (' (<=2 pairs in shared mode)' if tier == 'quick' else '')),
                bounds=dict(max_A_atoms=4, max_B_atoms=maxb),
                rule='one scenario per (A, B, mode, direction, identity map); non-trivial = the map is non-empty and B has terms',
                assumptions=['pairs are inside the compatibility domain: both or neither define coefficient tables', 'reference model mc/ref/structure.py'])


def reverse_terms(b):
    for k in KINDS:
        arr = np.asarray(getattr(b, ATTR[k]))
        if len(arr):
            setattr(b, ATTR[k], arr[:, ::-1].copy())


def chain(n, tag, cell=None, xf=False, shift=0.0):
    """long typed chain: n atoms, n-1 bonds, n-2 angles, coefficient tables"""
    kw = dict(atom_types=[i % 3 for i in range(n)], atom_type_elements=['C', 'N', 'O'], atom_type_labels=['C' + tag, 'N' + tag, 'O' + tag], atom_type_masses=[12.0, 14.0, 16.0],
              pair_coeffs=['pc_%s_%d' % (tag, i) for i in range(3)], positions=np.array([(0.7 * (i % 40) + shift, 0.7 * ((i // 40) % 40), 0.7 * (i // 1600)) for i in range(n)]),
              charges=[0.001 * (i % 97) for i in range(n)], groups=[i % 4 for i in range(n)],
              bonds=[(i, i + 1) for i in range(n - 1)], bond_types=[i % 2 for i in range(n - 1)], bond_type_coeffs=['b_%s_0 1' % tag, 'b_%s_1 2' % tag],
              angles=[(i, i + 1, i + 2) for i in range(n - 2)], angle_types=[0] * (n - 2), angle_type_coeffs=['a_%s_0 1' % tag])
    if cell is not None:
        kw['cell'] = cell
    return Atoms(**kw)


def scale_case(i):
    """(A, B, identity map) beyond the small bound"""
    if i == 0:      # 10-atom fragment, atoms 0..6 declared identical: three atoms (7, 8, 9) are appended
        return chain(12, 'a'), chain(10, 'x', shift=30.0), {j: j + 2 for j in range(7)}
    if i == 1:      # the same with a non-monotonic map
        return chain(12, 'a'), chain(10, 'x', shift=30.0), {0: 11, 2: 3, 3: 2, 5: 0, 8: 7, 9: 1}
    if i == 2:      # more than 1024 existing bonds; the fragment re-defines the last bonds (listed backwards) and the last angle
        A = chain(1300, 'a'); B = chain(3, 'x', shift=50.0)
        B.bonds = np.array([(1, 0), (2, 1)])
        return A, B, {0: 1297, 1: 1298, 2: 1299}
    if i == 3:      # atom indices beyond 100000
        A = chain(100006, 'a'); B = chain(3, 'x', shift=50.0)
        return A, B, {0: 100000, 1: 100001, 2: 100002}
    A = chain(300, 'a'); B = chain(40, 'x', shift=50.0)      # a long fragment, every third atom declared identical
    return A, B, {j: 299 - 2 * j for j in range(0, 40, 3)}


def swapped_columns(a):
    """the same structure with the extra columns of every kind listed in reverse order"""
    kwb = describe_kwargs(a)
    for k in ['atom'] + KINDS:
        labels = kwb.get('extra_%s_labels' % k)
        if labels and len(labels) > 1:
            kwb['extra_%s_labels' % k] = labels[::-1]; kwb['extra_%s_fields' % k] = [tuple(row[::-1]) for row in kwb['extra_%s_fields' % k]]
    return Atoms(**kwb)


def describe_kwargs(a):
    kw = dict(atom_types=[int(t) for t in a.atom_types], positions=np.array(a.positions, dtype=float), charges=[float(x) for x in a.charges], groups=[int(x) for x in a.groups],
              atom_type_masses=[float(x) for x in a.atom_type_masses], atom_type_elements=[str(x) for x in a.atom_type_elements], atom_type_labels=[str(x) for x in a.atom_type_labels], pair_coeffs=[str(x) for x in a.pair_coeffs])
    if a.cell is not None:
        kw['cell'] = np.array(a.cell, dtype=float)
    for k in KINDS:
        kw[ATTR[k]] = [tuple(int(x) for x in row) for row in np.asarray(getattr(a, ATTR[k])).reshape(-1, ARITY[k])]
        kw[k + '_types'] = [int(x) for x in getattr(a, k + '_types')]; kw[k + '_type_coeffs'] = [str(x) for x in getattr(a, k + '_type_coeffs')]
    for k in ['atom'] + KINDS:
        labels = list(getattr(a, 'extra_%s_labels' % k))
        if labels:
            kw['extra_%s_labels' % k] = labels
            kw['extra_%s_fields' % k] = [tuple(str(v) for v in row) for row in np.asarray(getattr(a, 'extra_%s_fields' % k)).reshape(-1, len(labels))]
    return kw


def run_reuse(sc, out):
    """ONE fragment object and ONE identity-map dict used for two extensions: of a structure and of the same structure with its extra
    columns listed in another order.  Both results must be right, and fragment and map must come back as they were."""
    ai, bi, mi, order, via = sc['reuse']
    A1 = [lambda: mk(3, True, xf=True), lambda: mk(4, True, xf=True, tag='cd'), lambda: mk(4, True)][ai]()
    A2 = swapped_columns(A1)
    frag = [lambda: mk(3, True, xf=True, tag='xy', shift=7.0), lambda: mk(2, True, xf=True, tag='ab', shift=7.0), lambda: mk(3, True, tag='uv', shift=7.0)][bi]()
    n = len(A1.atom_types)
    md = [{}, {0: n - 1}, {1: 0, 0: 1}][mi]; m0 = dict(md)
    fb = raw_state(frag)
    targets = [('the structure', A1), ('the structure with its extra columns in reverse order', A2)]
    if order:
        targets = targets[::-1]
    for ti, (tname, T) in enumerate(targets):
        ref = RefStructure.of(T); refF = RefStructure.of(frag, uid0=1000 * (ti + 1)) if raw_state(frag) == fb else None
        if refF is None:
            break
        if via == 'default':
            r, err = call(T.extend, frag, structure_index_map=md)
        else:
            off, err = call(T.extend_types, frag)
            if not err:
                r, err = call(T.extend, frag, offsets=off, structure_index_map=md)
            refF = RefStructure.of(frag, uid0=1000 * (ti + 1), origin='B') if raw_state(frag) == fb else refF
        ref.extend(refF, m0)
        out['evals'] += 1; out['compared'] += 1
        what = 'extension %d of 2 with the same fragment object and map object (%s, %s)' % (ti + 1, tname, via)
        if err:
            out['violations'].append(viol('extend-exact', 'reuse-exc:' + exc_sig(err), '%s raised %r' % (what, err[0]), sc)); break
        try:
            d = compare_views(view(T), ref.view())
        except Inconsistent as e:
            d = 'inconsistent object (%s): %s' % (e.clause, e)
        if d:
            out['violations'].append(viol('extend-exact', 'reuse-view', '%s: %s' % (what, d[:500]), sc)); break
        if md != m0:
            out['violations'].append(viol('other-unmodified', 'map-modified', '%s changed the identity map it was given: %r -> %r' % (what, m0, md), sc)); break
        if raw_state(frag) != fb:
            d = [i for i, (x, y) in enumerate(zip(fb, raw_state(frag))) if x != y]
            out['violations'].append(viol('other-unmodified', 'other-modified', '%s modified the fragment (raw-state fields %r)' % (what, d[:6]), sc)); break
    out['hashes'].add(h64(sc)); out['nontrivial'] = 1; out['outcomes']['fragment and map reused'] = 1
    return out


def run(sc, ctx):
    out = dict(evals=0, compared=0, violations=[], outcomes={}, hashes=set(), nontrivial=0)
    if 'reuse' in sc:
        return run_reuse(sc, out)
    if 'scale' in sc:
        A, B, m = scale_case(sc['scale'])
        a = A.copy(); b = B.copy(); ref = RefStructure.of(A)
        r, err = call(a.extend, b, structure_index_map=dict(m))
        ref.extend(RefStructure.of(B, uid0=10 ** 7), m)
        out['evals'] = 1; out['compared'] = 1; out['hashes'].add(h64(sc)); out['nontrivial'] = 1; out['outcomes']['scale %d' % sc['scale']] = 1
        if err:
            out['violations'].append(viol('extend-exact', 'scale-exc:' + exc_sig(err), 'extend raised %r (scale case %d: %d + %d atoms, %d mapped)' % (err[0], sc['scale'], len(A.atom_types), len(B.atom_types), len(m)), sc))
            return out
        try:
            d = compare_views(view(a), ref.view())
        except Inconsistent as e:
            d = 'inconsistent object (%s): %s' % (e.clause, e)
        if d:
            out['violations'].append(viol('extend-exact', 'scale-view', 'scale case %d (%d + %d atoms, %d declared identical): %s' % (sc['scale'], len(A.atom_types), len(B.atom_types), len(m), d[:600]), sc))
        return out
    A = A_MENU[sc['A']][1]()
    mode = sc['mode']
    if mode == 'shared':
        B = A.copy(); B.translate(np.array([5.0, 0.3, 0.1]))
    else:
        B = B_MENU[sc['B']][1]()
    if sc['rev']:
        reverse_terms(B)
    m = {int(s): int(d) for s, d in sc['map']}
    a = A.copy(); b = B.copy()
    ref = RefStructure.of(A) if len(A) else RefStructure([], {k: [] for k in KINDS})
    before = raw_state(b)
    steps = []
    if mode == 'default':
        steps = [(b, m, None)]
        r, err = call(a.extend, b, structure_index_map=dict(m))
        ref.extend(RefStructure.of(B, uid0=100), m)
    elif mode == 'shared':
        r, err = call(a.extend, b, offsets=(0, 0, 0, 0, 0), structure_index_map=dict(m))
        ref.extend(RefStructure.of(B, uid0=100, origin=0), m)
    else:
        off, err = call(a.extend_types, b)
        if not err:
            r, err = call(a.extend, b, offsets=off, structure_index_map=dict(m))
            ref.extend(RefStructure.of(B, uid0=100, origin='B'), m)
        if not err and mode.startswith('twice'):
            b2 = B.copy(); b2.translate(np.array([0.0, 4.0, 0.0]))
            m2 = m if mode == 'twice-mapped' else {}
            r, err = call(a.extend, b2, offsets=off, structure_index_map=dict(m2))
            ref.extend(RefStructure.of(b2, uid0=200, origin='B'), m2)
    out['evals'] = 1; out['compared'] = 1
    out['hashes'].add(h64(sc))
    if err:
        out['violations'].append(viol('extend-exact', 'exc:' + exc_sig(err), 'extend raised %r on A=%s B=%s map=%s mode=%s' % (
            err[0], A_MENU[sc['A']][0], 'copy of A' if mode == 'shared' else B_MENU[sc['B']][0], m, mode), sc, tb=err[1]))
        return out
    try:
        d = compare_views(view(a), ref.view())
    except Inconsistent as e:
        d = 'inconsistent object (%s): %s' % (e.clause, e)
    if d:
        out['violations'].append(viol('extend-exact', 'view', 'A=%s B=%s map=%s mode=%s rev=%s: %s' % (
            A_MENU[sc['A']][0], 'copy of A' if mode == 'shared' else B_MENU[sc['B']][0], m, mode, sc['rev'], d), sc, after=describe(a), A=describe(A), B=describe(B)))
    if raw_state(b) != before:
        out['violations'].append(viol('other-unmodified', 'other-modified', 'extend modified its argument (A=%s, map=%s)' % (A_MENU[sc['A']][0], m), sc))
    nterms = sum(len(v) for v in RefStructure.of(B, uid0=100).terms.values())
    sup = sum(len(v) for v in RefStructure.of(A).terms.values()) + (2 if 'twice' in mode else 1) * nterms - sum(len(v) for v in ref.terms.values()) if len(A) else 0
    key = '%s mapped=%d superseded=%d' % (mode, len(m), sup)
    out['outcomes'][key] = 1
    if m and nterms:
        out['nontrivial'] = 1
    if sc['A'] == 5 and sc.get('B') == 3 and len(m) == 2 and mode == 'default' and sc['rev'] == 1 and m == {0: 1, 1: 0}:
        out['samples'] = [dict(A=describe(A), B=describe(B), map=m, mode=mode, result=describe(a))]
    return out
