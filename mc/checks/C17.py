"""C17 - bond detection equals the minimum-image covalent-radius rule.

Part A (finite domain, exhaustive): every unordered pair of tabulated symbols x distance
{cutoff -/+ 1e-3} x placement {inside; through a low/high face, edge, corner} x cell {none, cubic,
triclinic with both tilt signs} x atom order.  Part B: mixed metal / non-metal assemblies in all
CELLS with shift-and-wrap and permutation relations.
Oracle: ref_bonds (images -2..2, frozen radii / non-metal tables, strict <), result compared as a set
of pairs i<j, each once.
"""
import itertools
import numpy as np
from mc.checks.common import *
from mc.ref.bonds import COVALENT_RADII, NON_METALS, cutoff, ref_bonds, ref_bonds_fast
from mc.ref.geom import wrap, perpendicular_widths
from mc.alphabet.geom import CELLS as GCELLS, PLACEMENTS
from mofun.detect_bonds import detect_bonds

ENGINE = 'E1 product'
ELS = list(COVALENT_RADII)
PCELLS = [('no cell', None), ('cubic 12', 12.0 * np.identity(3)), ('triclinic +', np.array([[12.0, 0, 0], [4, 11, 0], [3, 2.5, 12]])),
          ('triclinic -', np.array([[12.0, 0, 0], [-4, 11, 0], [3, -2.5, 12]]))]
# (name, fractional anchor of atom 1, lattice direction of the step to atom 2)
PLACES = [('inside', (0.5, 0.5, 0.5), (1, 0.3, -0.2)), ('low face', (0.01, 0.5, 0.5), (-1, 0, 0)), ('low edge', (0.01, 0.01, 0.5), (-1, -1, 0)),
          ('low corner', (0.01, 0.01, 0.01), (-1, -1, -1)), ('high face', (0.5, 0.99, 0.5), (0, 1, 0)), ('high edge', (0.5, 0.99, 0.99), (0, 1, 1)),
          ('mixed corner', (0.99, 0.01, 0.99), (1, -1, 1))]


def mkatoms(els, pos, cell):
    uniq = list(dict.fromkeys(els))
    return Atoms(atom_types=[uniq.index(e) for e in els], atom_type_elements=uniq, atom_type_masses=[1.0] * len(uniq), atom_type_labels=uniq,
                 positions=np.array(pos, dtype=float), cell=None if cell is None else np.array(cell))


def clusters(seed):
    r = np.random.RandomState(170 + seed)
    out = []
    for els in (['Zr', 'O', 'O', 'C', 'H', 'Zr'], ['Cu', 'Cu', 'N', 'C', 'O', 'H', 'Cl'], ['Fr', 'Cs', 'O', 'H', 'C', 'K', 'Rb', 'F'], ['C', 'C', 'C', 'H', 'H', 'N', 'O', 'Si']):
        pts = []
        while len(pts) < len(els):
            p = r.uniform(-2.6, 2.6, 3)
            if all(np.linalg.norm(p - q) > 0.7 for q in pts):
                pts.append(p)
        out.append((els, np.array(pts)))
    return out


def rhomb(a, b, c, gamma):
    g = np.radians(gamma)
    return np.array([[a, 0, 0], [b * np.cos(g), b * np.sin(g), 0], [0, 0, c]])


# narrow cells: every perpendicular width only just above the largest cutoff (5.2 A), so that the nearest image of a
# bonded pair is often not the one obtained by rounding the fractional separation
NCELLS = [('rhombic a=b=7 gamma=60', rhomb(7.0, 7.0, 8.0, 60.0)), ('rhombic a=b=7 gamma=120', rhomb(7.0, 7.0, 8.0, 120.0)),
          ('triclinic 7.0 7.3 8.9 / 94 73 72', np.array([[7.03, 0, 0], [2.27, 6.93, 0], [2.59, -1.56, 8.37]])), ('orthorhombic 5.5 x 6 x 7', np.diag([5.5, 6.0, 7.0]))]
NPAIRS = [('Cs', 'Cs'), ('Fr', 'Fr'), ('K', 'Rb'), ('Ba', 'O'), ('Cs', 'F'), ('C', 'C')]
NGRID = [0.0, 0.2, 0.35, 0.45, 0.5, 0.55, 0.65, 0.8]


# part D, beyond the small bound: cells and coordinates of 1e7 ... 1e8 A; more than 1025 atoms in orders that bond atoms more than 1024 places apart
FAR = [('no cell, coordinates near 1e7', None, 1.0e7), ('no cell, coordinates near 1e8', None, 1.0e8), ('cubic cell 3e7', 3.0e7 * np.identity(3), 2.0e7),
       ('triclinic cell 2e7', 2.0e7 * np.array([[1.0, 0, 0], [0.3, 1.0, 0], [-0.2, 0.25, 1.0]]), 1.5e7), ('cubic cell 4e8', 4.0e8 * np.identity(3), 2.5e8)]
FAR_PAIRS = [('C', 'C'), ('Zr', 'O'), ('Cu', 'Cu'), ('Cs', 'Fr'), ('H', 'O')]
BIG = [('shuffled 11x10x10 lattice, cubic cell', 1100, 'cubic', 1), ('the same lattice in its natural order', 1100, 'cubic', 0), ('cloud of 1150 atoms, no cell', 1150, None, 1), ('cloud of 1200 atoms, triclinic cell', 1200, 'tri', 1)]


def big_case(i, seed):
    name, n, ckind, shuffle = BIG[i]
    r = np.random.RandomState(1700 + i)
    els = [['C', 'O', 'Zr', 'H', 'Cu', 'N'][j % 6] for j in range(n)]
    if 'lattice' in name:
        cell = np.diag([11 * 1.9, 10 * 1.9, 10 * 1.9]); pos = np.array([(1.9 * (j % 11) + 0.3, 1.9 * ((j // 11) % 10) + 0.2, 1.9 * (j // 110) + 0.1) for j in range(n)])
        pos = pos + r.uniform(-0.25, 0.25, pos.shape)
    else:
        cell = None if ckind is None else np.array([[26.0, 0, 0], [6.0, 25.0, 0], [-5.0, 4.0, 27.0]])
        pos = r.uniform(0.02, 0.98, (n, 3)) @ (cell if cell is not None else np.diag([24.0, 24.0, 24.0]))
    if shuffle:
        perm = r.permutation(n); pos = pos[perm]; els = [els[j] for j in perm]
    return name, els, pos, cell


def plan(tier, seed):
    scs = [dict(part='A', a=i) for i in range(len(ELS))]
    scs += [dict(part='C', cell=ci, pair=pi) for ci in range(len(NCELLS)) for pi in range(len(NPAIRS))]
    scs += [dict(part='D', far=i) for i in range(len(FAR))] + [dict(part='D', big=i) for i in range(len(BIG))]
    scs += [dict(part='H', cell=ci, cl=k, h=h) for ci in range(len(GCELLS)) for k in range(4) for h in range(5)]
    shifts = 4 if tier == 'quick' else 10
    places = PLACEMENTS[::4] if tier == 'quick' else PLACEMENTS
    scs += [dict(part='B', cell=ci, cl=k, place=list(pl)) for ci in range(len(GCELLS)) for k in range(4) for pl in places]
    return dict(scenarios=scs, exhaustive=True, chunk=2,
                menus=dict(symbols=len(ELS), distances=['cutoff-1e-3', 'cutoff+1e-3', 'exactly the cutoff (where the tie is exact in floating point)'], pair_cells=[c[0] for c in PCELLS], placements=[p[0] for p in PLACES], order=['a,b', 'b,a'],
                           assembly_cells=[c[0] for c in GCELLS], assemblies=4, assembly_placements=len(places), shifts=shifts, narrow_cells=[c[0] for c in NCELLS], narrow_pairs=['-'.join(p) for p in NPAIRS], narrow_grid='fractional separations %r^2 x {0, 0.3, 0.5} at nine anchors (0.7 - 4 A below the faces)' % (NGRID,), permutations=['reverse', 'rotate', 'interleave'], far=[f[0] for f in FAR], far_pairs=['-'.join(p) for p in FAR_PAIRS], big=[b[0] for b in BIG]),
                bounds=dict(), rule='part A: one scenario per first symbol, all partners/distances/placements/cells/orders inside; non-trivial = the pair is bonded only through a periodic image',
                assumptions=['radius and non-metal tables frozen at the pinned commit (mc/ref/bonds.py)', 'cells have perpendicular widths > 10.4 (pairs) / 7.4 (assemblies) > the largest cutoff 5.2',
                             'assembly pairs within 1e-6 of their cutoff are not compared'])


def min_d(pos, cell):
    from mc.ref.bonds import min_image_distance
    return min_image_distance(pos[0], pos[1], cell)


def as_pairs(arr):
    arr = np.asarray(arr)
    return [tuple(int(x) for x in row) for row in arr.reshape(-1, 2)] if arr.size else []


def run(sc, ctx):
    out = dict(evals=0, compared=0, violations=[], outcomes={}, hashes=set(), nontrivial=0)
    if sc['part'] == 'A':
        a = ELS[sc['a']]
        for b in ELS[sc['a']:]:
            c = cutoff(a, b)
            for sign in (-1, 1):
                dist = c + sign * 1e-3
                for cname, cell in PCELLS:
                    for pname, fr, step in (PLACES if cell is not None else PLACES[:1]):
                        if cell is None:
                            p1 = np.array([5.0, 5.0, 5.0]); d = np.array(step, float); crossed = 0
                        else:
                            p1 = np.array(fr) @ cell; d = np.array(step, float) @ cell
                        d = d / np.linalg.norm(d); p2 = p1 + d * dist
                        pos = np.array([p1, p2])
                        if cell is not None:
                            crossed = int(np.abs(np.floor(p2 @ np.linalg.inv(cell))).sum()); pos = wrap(pos, cell)
                        for order in (0, 1):
                            e = [a, b] if order == 0 else [b, a]; P = pos if order == 0 else pos[::-1]
                            got, err = call(lambda: detect_bonds(mkatoms(e, P, cell)))
                            out['evals'] += 1; out['compared'] += 1
                            exp = [(0, 1)] if sign < 0 else []
                            if err:
                                out['violations'].append(viol('pair-rule', 'exc:' + exc_sig(err), 'detect_bonds raised %r for %s-%s' % (err[0], a, b), sc)); continue
                            if as_pairs(got) != exp:
                                out['violations'].append(viol('pair-rule', 'pair %s %s' % ('missed' if exp else 'spurious', 'image' if crossed else 'direct'),
                                    '%s-%s at distance cutoff%+g (cutoff %.3f), %s, %s: detected %r, rule says %r' % (e[0], e[1], sign * 1e-3, c, cname, pname, as_pairs(got), exp), sc,
                                    elements=e, positions=P.tolist(), cell=None if cell is None else cell.tolist()))
                        key = '%s crossed=%d' % ('bonded' if sign < 0 else 'apart', crossed)
                        out['outcomes'][key] = out['outcomes'].get(key, 0) + 1
                        if crossed and sign < 0:
                            out['nontrivial'] += 1
            # exact tie: a separation that is equal to the cutoff in floating point is not "below" it
            for cname, cell in PCELLS[:2]:
                for axis in range(3):
                    p1 = np.array([2.0, 3.0, 4.0]) if cell is not None else np.zeros(3)
                    p2 = p1.copy(); p2[axis] = p1[axis] + c
                    if float(np.sqrt(((p2 - p1) ** 2).sum())) != c or (p2[axis] - p1[axis]) != c:
                        continue          # the tie is not exact for this pair / placement: nothing to decide
                    for order in (0, 1):
                        e = [a, b] if order == 0 else [b, a]; P = np.array([p1, p2]) if order == 0 else np.array([p2, p1])
                        got, err = call(lambda: detect_bonds(mkatoms(e, P, cell)))
                        out['evals'] += 1; out['compared'] += 1
                        if err or as_pairs(got) != []:
                            out['violations'].append(viol('pair-rule', 'exact-tie', '%s-%s exactly at the cutoff %.17g (%s): detected %r, but the distance is not below the cutoff' % (e[0], e[1], c, cname, err[0] if err else as_pairs(got)), sc,
                                                          elements=e, positions=P.tolist(), cell=None if cell is None else cell.tolist()))
                    out['outcomes']['exact tie'] = out['outcomes'].get('exact tie', 0) + 1
            out['hashes'].add(h64((a, b)))
        if sc['a'] == 5:
            out['samples'] = [dict(part='A', pair=[a, 'Zr'], cutoff=cutoff(a, 'Zr'), placements=[p[0] for p in PLACES])]
        return out
    if sc['part'] == 'C':
        cname, cell = NCELLS[sc['cell']]; a, b = NPAIRS[sc['pair']]
        if min(perpendicular_widths(cell)) <= 5.2:
            raise HarnessError('narrow cell outside the domain')
        for f in itertools.product(NGRID, NGRID, [0.0, 0.3, 0.5]):
            if f == (0.0, 0.0, 0.0):
                continue
            for anchor in ((0.1, 0.1, 0.1), (0.9, 0.6, 0.95), (0.3, 0.5, 0.5), (0.5, 0.3, 0.5), (0.7, 0.5, 0.45), (0.5, 0.7, 0.55), (0.3, 0.3, 0.5), (0.5, 0.5, 0.3), (0.26, 0.74, 0.7)):
                pos = wrap(np.array([np.array(anchor) @ cell, (np.array(anchor) + np.array(f)) @ cell]), cell)
                exp, gray = ref_bonds(pos, [a, b], cell, margin=1e-6)
                if gray:
                    continue
                got, err = call(lambda: detect_bonds(mkatoms([a, b], pos, cell)))
                out['evals'] += 1; out['compared'] += 1
                if err or as_pairs(got) != exp:
                    out['violations'].append(viol('pair-rule', 'narrow-cell', '%s-%s in %s at fractional separation %r: detected %r, minimum-image rule says %r' % (a, b, cname, f, err[0] if err else as_pairs(got), exp), sc,
                                                  elements=[a, b], positions=pos.tolist(), cell=cell.tolist()))
                key = 'narrow %s' % ('bonded' if exp else 'apart')
                out['outcomes'][key] = out['outcomes'].get(key, 0) + 1
                out['nontrivial'] += 1 if exp else 0
        # pairs bonded only through a face, placed along the face normal: the first atom at a perpendicular depth of 0.3 ... 0.97 cutoffs
        # below the face, the second just beyond it
        c = cutoff(a, b)
        for i in range(3):
            j, k = (i + 1) % 3, (i + 2) % 3
            nrm = np.cross(cell[j], cell[k]); nrm = nrm / np.linalg.norm(nrm)
            if nrm @ cell[i] < 0:
                nrm = -nrm                                   # points into the cell from the low face
            for high in (0, 1):
                q = 0.5 * cell[j] + 0.5 * cell[k] + (cell[i] if high else 0)
                inward = -nrm if high else nrm
                for frac_d in (0.3, 0.55, 0.7, 0.85, 0.93, 0.97, 1.0, 1.1):
                    for t in (0.0, 0.2):
                        p1 = q + inward * (frac_d * c) + t * (cell[j] - cell[k]) * 0.1; p2 = q - inward * 0.02 + t * (cell[j] - cell[k]) * 0.1
                        pos = wrap(np.array([p1, p2]), cell)
                        exp, gray = ref_bonds(pos, [a, b], cell, margin=1e-6)
                        if gray:
                            continue
                        for order in (0, 1):
                            e = [a, b] if order == 0 else [b, a]; P = pos if order == 0 else pos[::-1]
                            got, err = call(lambda: detect_bonds(mkatoms(e, P, cell)))
                            out['evals'] += 1; out['compared'] += 1
                            if err or as_pairs(got) != exp:
                                out['violations'].append(viol('pair-rule', 'narrow-cell-face', '%s-%s in %s, first atom %.2f A below the %s face %d along its normal, second 0.02 A beyond it: detected %r, minimum-image rule says %r' % (
                                    e[0], e[1], cname, frac_d * c, 'high' if high else 'low', i, err[0] if err else as_pairs(got), exp), sc, elements=e, positions=P.tolist(), cell=cell.tolist()))
                        out['nontrivial'] += 1 if exp else 0
        out['hashes'].add(h64(('C', sc['cell'], sc['pair'])))
        return out
    if sc['part'] == 'D':
        if 'far' in sc:
            name, cell, mag = FAR[sc['far']]
            for a, b in FAR_PAIRS:
                c = cutoff(a, b)
                for dist in (c - 0.02, c + 0.02, 0.6 * c, c - 0.2):
                    for pname, fr, step in (PLACES if cell is not None else PLACES[:1]):
                        if cell is None:
                            p1 = np.array([mag, -0.7 * mag, 0.4 * mag]); d = np.array(step, float)
                        else:
                            p1 = np.array(fr) @ cell; d = np.array(step, float) @ cell
                            if pname == 'inside':
                                p1 = np.array([0.55, 0.6, 0.7]) @ cell
                        d = d / np.linalg.norm(d); p2 = p1 + d * dist
                        pos = np.array([p1, p2]) if cell is None else wrap(np.array([p1, p2]), cell)
                        exp, gray = ref_bonds(pos, [a, b], cell, margin=1e-6)      # distances measured on the stored coordinates
                        if gray:
                            continue
                        for order in (0, 1):
                            e = [a, b] if order == 0 else [b, a]; P = pos if order == 0 else pos[::-1]
                            got, err = call(lambda: detect_bonds(mkatoms(e, P, cell)))
                            out['evals'] += 1; out['compared'] += 1
                            if err or as_pairs(got) != exp:
                                out['violations'].append(viol('pair-rule', 'far-coordinates', '%s-%s at distance %.6f (cutoff %.3f), %s, %s: detected %r, rule says %r' % (e[0], e[1], min_d(pos, cell), c, name, pname, err[0] if err else as_pairs(got), exp), sc,
                                                              elements=e, positions=P.tolist(), cell=None if cell is None else cell.tolist()))
                        key = 'far %s' % ('bonded' if exp else 'apart'); out['outcomes'][key] = out['outcomes'].get(key, 0) + 1
                        out['nontrivial'] += 1 if exp else 0
            out['hashes'].add(h64(('far', sc['far'])))
            return out
        name, els, pos, cell = big_case(sc['big'], ctx['seed'])
        exp, gray = ref_bonds_fast(pos, els, cell, margin=1e-6)
        got, err = call(lambda: detect_bonds(mkatoms(els, pos, cell)))
        out['evals'] += 1; out['compared'] += 1; out['hashes'].add(h64(('big', sc['big'])))
        if err:
            out['violations'].append(viol('assembly', 'big-exc:' + exc_sig(err), '%s: detect_bonds raised %r' % (name, err[0]), sc)); return out
        gp = as_pairs(got); gs = set(gp) - set(gray); es = set(exp) - set(gray)
        if any(i >= j for i, j in gp) or len(set(gp)) != len(gp):
            out['violations'].append(viol('assembly', 'big-pairs', '%s: pairs are not i<j / unique (%d pairs, %d distinct)' % (name, len(gp), len(set(gp))), sc))
        elif gs != es:
            far = sorted(p for p in (gs ^ es) if abs(p[0] - p[1]) > 1024)
            out['violations'].append(viol('assembly', 'big-set', '%s: %d bonds by the rule, %d detected; %d missing %r, %d spurious %r (of the differing pairs %d join atoms more than 1024 places apart)' % (
                name, len(es), len(gs), len(es - gs), sorted(es - gs)[:3], len(gs - es), sorted(gs - es)[:3], len(far)), sc))
        out['outcomes']['big bonds>1024 apart=%s' % (any(abs(i - j) > 1024 for i, j in exp))] = 1; out['nontrivial'] += 1
        return out
    if sc['part'] == 'H':
        # histories: bonds were detected on the object before; then its cell or coordinates changed (or a replica / fragment was taken):
        # the next detection must be that of the current content
        cname, cell = GCELLS[sc['cell']]
        els, pts = clusters(ctx['seed'])[sc['cl']]
        pos = wrap(pts + np.array([0.97, 0.03, 0.5]) @ cell, cell)
        s = mkatoms(els, pos, cell)
        call(lambda: detect_bonds(s))
        h = sc['h']
        if h == 0:
            t = s.replicate((2, 1, 1)); what = 'detected, replicated 2x1x1, detected in the replica'
        elif h == 1:
            s.cell = np.asarray(s.cell, float) * np.array([[1.0], [2.0], [1.0]]); t = s; what = 'detected, cell doubled along b, detected again'
        elif h == 2:
            s.positions[:] = wrap(np.asarray(s.positions) + np.array([0.4, 0.3, 0.2]) @ cell, cell); t = s; what = 'detected, shifted and wrapped in place, detected again'
        elif h == 3:
            t = mkatoms(els, np.asarray(s.positions).copy(), None); what = 'detected in the periodic structure, then in the same atoms without a cell'
        else:
            t = s.copy(); t.cell = np.asarray(t.cell, float) * 3.0; what = 'detected, copy() with a three times larger cell, detected in the copy'
        tcell = None if t.cell is None else np.asarray(t.cell, float); tels = [str(x) for x in t.elements]
        exp, gray = ref_bonds(np.asarray(t.positions, float), tels, tcell, margin=1e-6) if len(tels) <= 12 else ref_bonds_fast(np.asarray(t.positions, float), tels, tcell, margin=1e-6)
        got, err = call(lambda: detect_bonds(t))
        out['evals'] += 2; out['compared'] += 1; out['hashes'].add(h64(('H', sc['cell'], sc['cl'], h)))
        if err:
            out['violations'].append(viol('assembly', 'history-exc:' + exc_sig(err), '%s (%s): raised %r' % (what, cname, err[0]), sc)); return out
        gp = [p for p in as_pairs(got) if p not in gray]
        if sorted(gp) != [p for p in sorted(exp) if p not in gray]:
            out['violations'].append(viol('assembly', 'history', '%s (%s, assembly %s): detected %r, the rule says %r' % (what, cname, els, sorted(gp), sorted(exp)), sc))
        out['outcomes']['history bonds=%d' % len(exp)] = 1; out['nontrivial'] += 1
        return out
    # ---- part B
    cname, cell = GCELLS[sc['cell']]
    els, pts = clusters(ctx['seed'])[sc['cl']]
    base = wrap(pts + np.array(sc['place']) @ cell, cell)
    n = len(els)
    r = np.random.RandomState(99 + ctx['seed'])
    nshift = 4 if ctx['tier'] == 'quick' else 10
    shifts = [np.zeros(3), 0.5 * cell[0], np.array([0.31, 0.47, 0.83]) @ cell, cell[1], np.array([-1e-9, 0, 0])] + [r.uniform(-1, 1, 3) @ cell for _ in range(nshift)]
    shifts = shifts[:1 + nshift]
    perms = [list(range(n)), list(range(n))[::-1], list(range(1, n)) + [0], list(range(0, n, 2)) + list(range(1, n, 2))]
    exp0 = None
    for si, sh in enumerate(shifts):
        pos = wrap(base + sh, cell)
        exp, gray = ref_bonds(pos, els, cell, margin=1e-6)
        for pi, perm in enumerate(perms if si < 2 else perms[:1]):
            e = [els[i] for i in perm]; P = pos[perm]
            got, err = call(lambda: detect_bonds(mkatoms(e, P, cell)))
            out['evals'] += 1; out['compared'] += 1
            if err:
                out['violations'].append(viol('assembly', 'exc:' + exc_sig(err), 'detect_bonds raised %r' % (err[0],), sc)); continue
            gp = as_pairs(got)
            inv = {new: old for new, old in enumerate(perm)}
            back = sorted(tuple(sorted((inv[i], inv[j]))) for i, j in gp)
            bad = None
            if any(i >= j for i, j in gp) or len(set(gp)) != len(gp):
                bad = 'pairs are not i<j / unique: %r' % gp
            elif [p for p in back if p not in gray] != [p for p in sorted(exp) if p not in gray]:
                bad = 'detected %r (original numbering), rule says %r' % (back, sorted(exp))
            if bad:
                out['violations'].append(viol('assembly', 'assembly', '%s, assembly %s shifted by %s, permutation %s: %s' % (cname, els, np.round(sh, 4).tolist(), perm, bad), sc,
                                              elements=e, positions=P.tolist(), cell=cell.tolist()))
        out['hashes'].add(h64((sc['cell'], sc['cl'], tuple(sc['place']), si)))
        if exp0 is None:
            exp0 = exp
        elif sorted(exp) != sorted(exp0) and not gray:
            raise HarnessError('reference bonding is not shift invariant')
        key = 'assembly bonds=%d' % len(exp)
        out['outcomes'][key] = out['outcomes'].get(key, 0) + 1
        out['nontrivial'] += 1 if exp else 0
    return out
