"""C15 - P1 CIF files round-trip.

E1 over structure shapes: cell x coordinates x term shapes x extra columns x charges x fractional /
Cartesian output, plus a read-side menu (uncertainties, Cartesian files, H-M names accepted /
rejected, coordinates outside the cell).  Oracles: an independent tokenizer (mc/ref/cif.py) and
ase.io.read must agree with the written text on cell and positions; re-reading reproduces elements,
order, lengths/angles, fractional coordinates mod 1, charges, terms (dihedrals then impropers) and
extra columns; T2 == T1 for in-cell inputs and T3 == T2 for all.
"""
import io, itertools
import numpy as np
from mc.checks.common import *
from mc.ref import cif as RC
from mc.alphabet.geom import GEN

ENGINE = 'E1 product'
TRI = np.array([[10.0, 0, 0], [3.0, 11.0, 0], [2.0, 1.5, 12.0]])
CELLS = [('orthorhombic', np.diag([10.0, 11.0, 12.0])), ('triclinic, round parameters', RC.cellpar_to_cell(10, 12, 14, 80, 70, 65)), ('triclinic, generic lengths', TRI),
         ('triclinic, arbitrarily oriented', TRI @ GEN.T), ('no cell', None)]
FRACS = [('inside, generic', np.array([(0.12345678, 0.5, 0.25), (0.33333333, 0.61803399, 0.9), (0.70710678, 0.1, 0.42), (0.05, 0.95, 0.5), (0.5, 0.5, 0.5)])),
         ('on a 4-decimal grid', np.array([(0.1234, 0.5, 0.25), (0.3333, 0.618, 0.9), (0.7071, 0.1, 0.42), (0.05, 0.95, 0.5), (0.5, 0.5, 0.5)])),
         ('outside the cell', np.array([(-0.25, 1.5, 0.25), (2.3333, -0.618, 0.9), (0.7071, 0.1, -3.42), (1.05, 0.95, 0.5), (0.5, 0.5, 0.5)])),
         ('on the cell boundary', np.array([(0.0, 0.0, 0.0), (1.0, 0.5, 0.0), (0.99996, 0.25, 1.0), (0.00004, 0.99999, 0.5), (0.5, 1.0, 0.5)]))]
ELS = ['C', 'N', 'C', 'O', 'Zr']
TUPS = {'bond': [(0, 1), (1, 2), (3, 2)], 'angle': [(0, 1, 2), (1, 2, 3), (3, 0, 4)], 'dihedral': [(0, 1, 2, 3), (4, 2, 1, 0), (1, 0, 3, 2)], 'improper': [(1, 0, 2, 3), (2, 1, 3, 4), (0, 3, 1, 2)]}
TSHAPES_Q = [(0, 0, 0, 0), (1, 1, 1, 0), (3, 3, 3, 0), (1, 1, 1, 1), (3, 0, 3, 3), (0, 0, 0, 3), (2, 3, 0, 1), (0, 1, 0, 1)]
TSHAPES = TSHAPES_Q + [t for t in itertools.product((0, 1, 3), repeat=4) if t not in TSHAPES_Q]      # thorough: every (bonds, angles, dihedrals, impropers) count in {0,1,3}^4
XCOLS = [0, 1, 2]
CHARGES = [[0, 0, 0, 0, 0], [-0.8234567, 12.5, 0.0, 1e-7, 2.0]]


def plan(tier, seed):
    scs = []
    q = tier == 'quick'
    for ci in range(len(CELLS)):
        for fi in range(len(FRACS)):
            for ts in range(len(TSHAPES_Q) if q else len(TSHAPES)):
                for xc in XCOLS:
                    for ch in range(2):
                        for fract in (1, 0):
                            if q and (ts + xc + ch + fi) % 2 and ci in (1, 3):
                                pass
                            if ci == 3 and not fract:
                                continue        # Cartesian output of a cell that is not in the standard orientation: outside the domain
                            if ci == 4 and fract:
                                continue        # no cell: Cartesian only
                            scs.append(dict(kind='write', cell=ci, fr=fi, ts=ts, xc=xc, ch=ch, fract=fract))
    scs += [dict(kind='read', i=i) for i in range(len(read_menu()))]
    scs += [dict(kind='many', n=n, fract=f) for n in (120, 1003) for f in (1, 0)]
    return dict(scenarios=scs, exhaustive=True, chunk=8,
                menus=dict(cells=[c[0] for c in CELLS], coordinates=[f[0] for f in FRACS], term_shapes=TSHAPES_Q if q else 'all 81 count tuples in {0,1,3}^4 + (2,3,0,1)', extra_columns_per_kind=XCOLS, charges=CHARGES, output=['fractional', 'Cartesian'],
                           read_side=[r[0] for r in read_menu()]),
                bounds=dict(atoms=5), rule='one scenario per shape tuple / hand-written file; non-trivial = terms of at least two kinds or extra columns present',
                assumptions=['the PyCifRW and ase versions installed in /venv', 'Cartesian output is only in the domain for cells in the standard CIF orientation (a along x, b in the xy plane)',
                             'extra columns exist for atoms, bonds, angles and torsions (CIF has a single torsion loop)'])


def build(sc):
    cell = CELLS[sc['cell']][1]
    fr = FRACS[sc['fr']][1]
    pos = fr @ cell if cell is not None else fr * 10.0
    if sc['ch']:
        # force-field style typing: two atom types share the element C (labels must still be unique per atom)
        kw = dict(atom_types=[0, 1, 2, 3, 4], atom_type_elements=list(ELS), atom_type_labels=['C_a', 'N_a', 'C_b', 'O_a', 'Zr_a'], atom_type_masses=[MASS[e] for e in ELS],
                  positions=pos, cell=None if cell is None else cell.copy(), charges=CHARGES[sc['ch']])
    else:
        kw = dict(elements=list(ELS), positions=pos, cell=None if cell is None else cell.copy(), charges=CHARGES[sc['ch']])
    nx = sc['xc']
    if nx:
        kw['extra_atom_labels'] = ['_atom_site_occupancy', '_atom_site_my_tag'][:nx]
        kw['extra_atom_fields'] = [('1.0', 'a%d' % i if i != 3 else 'a-long-value-without-blanks-that-is-longer-than-32-characters_%d' % i)[:nx] for i in range(5)]
    for k, nm in zip(KINDS, TSHAPES[sc['ts']]):
        t = TUPS[k][:nm]; kw[ATTR[k]] = t; kw[k + '_types'] = list(range(len(t)))
        if nx and t and k == 'improper':
            kw['extra_improper_labels'] = ['_geom_torsion_my_tag', '_geom_torsion_improper_tag'][:nx]
            kw['extra_improper_fields'] = [('i%d' % j, 'w%d' % j)[:nx] for j in range(len(t))]
        if nx and t and k != 'improper':
            cif = {'bond': 'bond', 'angle': 'angle', 'dihedral': 'torsion'}[k]
            kw['extra_%s_labels' % k] = ['_geom_%s_distance' % cif, '_geom_%s_my_tag' % cif][:nx] if k == 'bond' else ['_geom_%s_value' % cif, '_geom_%s_my_tag' % cif][:nx]
            kw['extra_%s_fields' % k] = [('%d.5' % j, '%s%d' % (k[0], j) if j != 1 else 'harmonic_12.345678_-1_2_C_R_C_R_O_1_H__fitted_set_3_%s%d' % (k[0], j))[:nx] for j in range(len(t))]
    return Atoms(**kw)


def torsion_columns(a):
    """expected labels and rows of the single CIF torsion loop: dihedral rows then improper rows, columns merged by label, '.' = no value"""
    ld = list(a.extra_dihedral_labels); li = list(a.extra_improper_labels)
    labels = list(dict.fromkeys(ld + li))
    fd = np.asarray(a.extra_dihedral_fields, dtype=object); fi = np.asarray(a.extra_improper_fields, dtype=object)
    rows = []
    for r in range(len(a.dihedrals)):
        rows.append([str(fd[r][ld.index(l)]) if l in ld else '.' for l in labels])
    for r in range(len(a.impropers)):
        rows.append([str(fi[r][li.index(l)]) if l in li else '.' for l in labels])
    return labels, rows


def save(a, fract):
    s = io.StringIO(); a.save_p1_cif(s, use_fract_coords=bool(fract)); return s.getvalue()


def lattice_dist(f1, f2):
    d = np.asarray(f1) - np.asarray(f2)
    return float(np.abs(d - np.round(d)).max())


def text_states(a, text, fract):
    """independent tokenizer: the text must state the structure"""
    errs = []
    try:
        name, items, loops = RC.read(text)
    except RC.CifError as e:
        return ['text not parseable by the independent reader: %s' % e]
    hm = items.get('_symmetry_space_group_name_h-m')
    if hm not in ('P 1', 'P1'):
        errs.append('space group written as %r' % hm)
    cp = RC.cell_params(items)
    if (cp is None) != (a.cell is None):
        errs.append('cell items present=%s, structure cell %s' % (cp is not None, 'None' if a.cell is None else 'set'))
    if cp is not None:
        exp = RC.params_of_cell(a.cell)
        if max(abs(x - y) for x, y in zip(cp[:3], exp[:3])) > 1e-6 or max(abs(x - y) for x, y in zip(cp[3:], exp[3:])) > 5.1e-5:
            errs.append('cell parameters %r, structure has %r' % (cp, exp))
    n = len(a.atom_types)
    sym = RC.column(loops, '_atom_site_type_symbol'); lab = RC.column(loops, '_atom_site_label')
    if sym != list(a.elements):
        errs.append('type symbols %r, structure has %r' % (sym, list(a.elements)))
    if lab is None or len(set(lab)) != n:
        errs.append('atom labels are not unique: %r' % (lab,)); return errs
    tags = ['_atom_site_fract_%s' % c for c in 'xyz'] if fract else ['_atom_site_cartn_%s' % c for c in 'xyz']
    cols = [RC.column(loops, t) for t in tags]
    if any(c is None for c in cols):
        errs.append('coordinate columns %r missing' % tags); return errs
    xyz = np.array([[RC.num(v) for v in c] for c in cols]).T
    if fract:
        f = np.asarray(a.positions) @ np.linalg.inv(a.cell)
        if np.abs(xyz - f).max() > 5.1e-5:
            errs.append('fractional coordinates %r, structure has %r' % (xyz.tolist(), np.round(f, 6).tolist()))
    elif np.abs(xyz - np.asarray(a.positions)).max() > 5.1e-5:
        errs.append('Cartesian coordinates %r, structure has %r' % (xyz.tolist(), np.asarray(a.positions).tolist()))
    q = RC.column(loops, '_atom_site_charge')
    if q is None or np.abs(np.array([RC.num(x) for x in q]) - np.asarray(a.charges)).max() > 1e-9:
        errs.append('charges %r, structure has %r' % (q, list(a.charges)))
    idx = {l: i for i, l in enumerate(lab)}
    four = [tuple(int(x) for x in t) for t in np.asarray(a.dihedrals).reshape(-1, 4)] + [tuple(int(x) for x in t) for t in np.asarray(a.impropers).reshape(-1, 4)]
    for cif, exp, ar in (('bond', [tuple(int(x) for x in t) for t in np.asarray(a.bonds).reshape(-1, 2)], 2), ('angle', [tuple(int(x) for x in t) for t in np.asarray(a.angles).reshape(-1, 3)], 3), ('torsion', four, 4)):
        cs = [RC.column(loops, '_geom_%s_atom_site_label_%d' % (cif, i + 1)) for i in range(ar)]
        got = [] if cs[0] is None else [tuple(idx.get(c[j], -1) for c in cs) for j in range(len(cs[0]))]
        if got != exp:
            errs.append('%s loop joins %r, structure has %r' % (cif, got, exp))
    for kind in ('atom', 'bond', 'angle', 'torsion'):
        if kind == 'torsion':
            labels, rows = torsion_columns(a)
        else:
            labels = list(getattr(a, 'extra_%s_labels' % kind)); rows = [[str(x) for x in r] for r in np.asarray(getattr(a, 'extra_%s_fields' % kind), dtype=object)]
        for j, l in enumerate(labels):
            col = RC.column(loops, l.lower())
            if len(rows) and (col is None or [str(x) for x in col] != [r[j] for r in rows]):
                errs.append('extra column %s is %r, structure has %r' % (l, col, [r[j] for r in rows]))
    return errs


def reread_matches(a, b, fract):
    errs = []
    if list(b.elements) != list(a.elements):
        errs.append('elements %r -> %r' % (list(a.elements), list(b.elements)))
    if (a.cell is None) != (b.cell is None):
        errs.append('cell presence changed'); return errs
    if a.cell is not None:
        pa, pb = RC.params_of_cell(a.cell), RC.params_of_cell(b.cell)
        if max(abs(x - y) for x, y in zip(pa[:3], pb[:3])) > 1e-6 or max(abs(x - y) for x, y in zip(pa[3:], pb[3:])) > 1e-4:
            errs.append('cell parameters %r -> %r' % (pa, pb))
        fa = np.asarray(a.positions) @ np.linalg.inv(a.cell); fb = np.asarray(b.positions) @ np.linalg.inv(b.cell)
        if fa.shape != fb.shape or lattice_dist(fa, fb) > (6e-5 if fract else 6e-5):
            errs.append('fractional coordinates mod 1: %r -> %r' % (np.round(fa, 5).tolist(), np.round(fb, 5).tolist()))
        if fract and (fb.min() < -1e-9 or fb.max() > 1 - 1e-9):        # printed with 4 decimals, so a wrapped coordinate is at most 0.9999
            errs.append('re-read fractional coordinates are not wrapped into the cell: %r' % np.round(fb, 6).tolist())
    elif np.abs(np.asarray(a.positions) - np.asarray(b.positions)).max() > 5.1e-5:
        errs.append('Cartesian positions changed')
    if np.abs(np.asarray(a.charges) - np.asarray(b.charges)).max() > 1e-9:
        errs.append('charges %r -> %r' % (list(a.charges), list(b.charges)))
    four = np.asarray(a.dihedrals).reshape(-1, 4).tolist() + np.asarray(a.impropers).reshape(-1, 4).tolist()
    for k, exp in (('bond', np.asarray(a.bonds).reshape(-1, 2).tolist()), ('angle', np.asarray(a.angles).reshape(-1, 3).tolist()), ('dihedral', four)):
        got = np.asarray(getattr(b, ATTR[k])).reshape(-1, ARITY[k]).tolist()
        if got != exp:
            errs.append('%s %r -> %r' % (ATTR[k], exp, got))
    if len(b.impropers):
        errs.append('re-read structure has impropers')
    for kind in ('atom', 'bond', 'angle', 'dihedral'):
        if kind == 'dihedral':
            la, ra = torsion_columns(a)
        else:
            la = list(getattr(a, 'extra_%s_labels' % kind)); ra = [[str(v) for v in r] for r in np.asarray(getattr(a, 'extra_%s_fields' % kind), dtype=object)]
        lb = list(getattr(b, 'extra_%s_labels' % kind)); rb = [[str(v) for v in r] for r in np.asarray(getattr(b, 'extra_%s_fields' % kind), dtype=object)]
        if not ra:
            la = []                      # a loop that is not written cannot carry its column labels
        if [x.lower() for x in la] != [x.lower() for x in lb] or (len(la) and ra != rb):
            errs.append('extra %s columns %r %r -> %r %r' % (kind, la, ra, lb, rb))
    return errs


def ase_agrees(text, b):
    import ase.io
    try:
        ref = ase.io.read(io.StringIO(text), format='cif')
    except Exception as e:
        return ['ase.io.read cannot read the text: %r' % (e,)]
    errs = []
    if list(ref.get_chemical_symbols()) != list(b.elements):
        errs.append('ase reads elements %r, mofun %r' % (ref.get_chemical_symbols(), list(b.elements)))
    if b.cell is not None:
        if np.abs(np.asarray(ref.cell) - np.asarray(b.cell)).max() > 1e-6:
            errs.append('ase reads cell %r, mofun %r' % (np.asarray(ref.cell).tolist(), np.asarray(b.cell).tolist()))
        elif len(ref) == len(b.atom_types) and lattice_dist(ref.positions @ np.linalg.inv(b.cell), np.asarray(b.positions) @ np.linalg.inv(b.cell)) > 1e-6:
            errs.append('ase reads positions %r, mofun %r (not lattice-equivalent)' % (np.round(ref.positions, 5).tolist(), np.round(np.asarray(b.positions), 5).tolist()))
    return errs


HEAD = "data_x\n_symmetry_space_group_name_H-M  %s\n_symmetry_Int_Tables_number 1\n"
CELLTXT = "_cell_length_a 10.000(2)\n_cell_length_b 11.5\n_cell_length_c 12.25(10)\n_cell_angle_alpha 90\n_cell_angle_beta 100.5(1)\n_cell_angle_gamma 75.25\n"
ATOMS_F = "loop_\n _atom_site_label\n _atom_site_type_symbol\n _atom_site_fract_x\n _atom_site_fract_y\n _atom_site_fract_z\n C1 C 0.2349(3) 0.2 0.0793(12)\n N1 N 1.25 -0.5 0.5\n Zr1 Zr 0.0 0.99999 2.0\n"
ATOMS_C = "loop_\n _atom_site_label\n _atom_site_type_symbol\n _atom_site_Cartn_x\n _atom_site_Cartn_y\n _atom_site_Cartn_z\n C1 C 1.5(2) 2.0 -3.25\n N1 N 14.0 0.5 0.5\n Zr1 Zr 0.0 0.0 0.0\n"
BONDS = "loop_\n _geom_bond_atom_site_label_1\n _geom_bond_atom_site_label_2\n _geom_bond_distance\n Zr1 C1 2.1(1)\n N1 C1 1.3\n"


def read_menu():
    m = []
    for hm, ok in (("'P 1'", True), ('P1', True), ("'P -1'", False), ("'P 21/c'", False), ("'F m -3 m'", False), ("'P 4'", False), ("'P 2'", False), ("'P 1 21/c 1'", False), ("'P 1 2 1'", False), ("'P 1 1 2/m'", False), ("'P 1 c 1'", False), ("'P 1 1 21'", False), ("'P 1 2/m 1'", False), ("'P 1 21/n 1'", False), ("'I 1'", False), ("'A 1'", False), ("'P 1 -1'", False)):
        m.append(('H-M name %s %s' % (hm, 'accepted' if ok else 'rejected'), HEAD % hm + CELLTXT + ATOMS_F, ok, 'f'))
    m.append(('no H-M item', "data_x\n" + CELLTXT + ATOMS_F, True, 'f'))
    m.append(('uncertainties, fractional, bonds', HEAD % "'P 1'" + CELLTXT + ATOMS_F + BONDS, True, 'f'))
    m.append(('Cartesian file with cell', HEAD % "'P 1'" + CELLTXT + ATOMS_C + BONDS, True, 'c'))
    m.append(('Cartesian file without cell', HEAD % "'P 1'" + ATOMS_C, True, 'c'))
    return m


FR_EXP = np.array([(0.2349, 0.2, 0.0793), (0.25, 0.5, 0.5), (0.0, 0.99999, 0.0)])
CA_EXP = np.array([(1.5, 2.0, -3.25), (14.0, 0.5, 0.5), (0.0, 0.0, 0.0)])


def run(sc, ctx):
    out = dict(evals=0, compared=0, violations=[], outcomes={}, hashes={h64(sc)}, nontrivial=0)

    def bad(clause, sig, msg, **kw):
        out['violations'].append(viol(clause, sig, '%s [%s]' % (msg, sc), sc, **kw))
    if sc['kind'] == 'read':
        name, text, ok, mode = read_menu()[sc['i']]
        b, err = call(Atoms.load_p1_cif, io.StringIO(text)); out['evals'] += 1; out['compared'] += 1
        out['outcomes']['read ' + ('accepted' if not err else 'rejected')] = 1
        if not ok:
            if not err:
                bad('non-P1-rejected', 'accepted', '%s: file declaring a non-P1 space group was accepted' % name, text=text)
            return out
        if err:
            bad('read', 'exc:' + exc_sig(err), '%s: load_p1_cif raised %r' % (name, err[0]), text=text); return out
        if list(b.elements) != ['C', 'N', 'Zr']:
            bad('read', 'elements', '%s: elements %r' % (name, list(b.elements)))
        has_cell = '_cell_length_a' in text
        if has_cell:
            cell = RC.cellpar_to_cell(10.0, 11.5, 12.25, 90, 100.5, 75.25)
            if b.cell is None or np.abs(np.asarray(b.cell) - cell).max() > 1e-6:
                bad('read', 'cell', '%s: cell %r, parameters say %r' % (name, None if b.cell is None else np.asarray(b.cell).tolist(), cell.tolist()))
            elif mode == 'f':
                fb = np.asarray(b.positions) @ np.linalg.inv(cell)
                if np.abs(fb - FR_EXP).max() > 1e-9:
                    bad('read', 'wrap', '%s: fractional coordinates %r, expected (wrapped, uncertainties stripped) %r' % (name, np.round(fb, 6).tolist(), FR_EXP.tolist()))
        if mode == 'c' and np.abs(np.asarray(b.positions) - CA_EXP).max() > 1e-9:
            bad('read', 'cartesian', '%s: positions %r, file says %r' % (name, np.asarray(b.positions).tolist(), CA_EXP.tolist()))
        if '_geom_bond' in text and (np.asarray(b.bonds).tolist() != [[2, 0], [1, 0]] or [str(x) for x in np.asarray(b.extra_bond_fields)[:, 0]] != ['2.1(1)', '1.3']):
            bad('read', 'bonds', '%s: bonds %r extra %r' % (name, np.asarray(b.bonds).tolist(), np.asarray(b.extra_bond_fields).tolist()))
        if has_cell:
            for e in ase_agrees(text, b):
                bad('independent-reader', e.split(',')[0][:30], '%s: %s' % (name, e), text=text)
        out['nontrivial'] = 1
        return out
    if sc['kind'] == 'many':
        # many atoms of one element (labels Cu100..., C1000...) with terms that refer to the late atoms
        n = sc['n']; el = 'Cu' if n < 1000 else 'C'
        cell = np.diag([4.0 * 12, 4.0 * 12, 4.0 * 12])
        pos = np.array([(4.0 * (i % 12) + 0.5, 4.0 * ((i // 12) % 12) + 0.5, 4.0 * (i // 144) + 0.5) for i in range(n)] + [(1.0, 2.0, 46.0), (3.0, 2.0, 46.5)])
        bonds = [(i, i + 1) for i in range(95, n - 1, 7)] + [(n, n - 1), (n + 1, 9)]
        a = Atoms(elements=[el] * n + ['O', 'O'], positions=pos, cell=cell, bonds=bonds, bond_types=[0] * len(bonds), angles=[(n - 2, n - 1, n), (9, 10, 99)], angle_types=[0, 0],
                  dihedrals=[(n - 3, n - 2, n - 1, n), (99, 100, 101, 9)], dihedral_types=[0, 0])
        sc = dict(sc, cell=0, fr=0, ts=0, xc=0, ch=0)
    else:
        a, err = call(build, sc)
    fract = sc['fract']
    if sc['kind'] != 'many' and err:
        bad('construct', 'exc:' + exc_sig(err), 'a consistent structure (terms %r, %d extra column(s) per kind) cannot be constructed: %r' % (TSHAPES[sc['ts']], sc['xc'], err[0]), tb=err[1]); return out
    before = raw_state(a)
    T1, err = call(save, a, fract); out['evals'] += 1
    if err:
        sig = 'exc:' + exc_sig(err)
        if TSHAPES[sc['ts']][3] and sc['xc'] and TSHAPES[sc['ts']][2]:
            sig += ':impropers+extra-torsion-columns'
        bad('write', sig, 'save_p1_cif raised %r' % (err[0],), tb=err[1]); return out
    if raw_state(a) != before:
        bad('write', 'modified', 'save_p1_cif modified the structure')
    for e in text_states(a, T1, fract)[:3]:
        bad('text-states-structure', e.split(' ')[0] + ' ' + e.split(' ')[1], e, text=T1)
    out['compared'] += 1
    b, err = call(Atoms.load_p1_cif, io.StringIO(T1)); out['evals'] += 1
    if err:
        bad('reread', 'exc:' + exc_sig(err), 'load_p1_cif raised %r on the written text' % (err[0],), text=T1, tb=err[1]); return out
    for e in reread_matches(a, b, fract)[:3]:
        bad('reread', e.split(' ')[0], 'after write+read: ' + e, text=T1)
    out['compared'] += 1
    if a.cell is not None:
        for e in ase_agrees(T1, b)[:2]:
            bad('independent-reader', e.split(',')[0][:30], e, text=T1)
        out['compared'] += 1
    T2, err = call(save, b, fract)
    c, err2 = call(Atoms.load_p1_cif, io.StringIO(T2)) if not err else (None, err)
    T3, err3 = call(save, c, fract) if not (err or err2) else (None, err or err2)
    out['evals'] += 3; out['compared'] += 1
    incell = sc['kind'] == 'many' or sc['fr'] in (0, 1) or a.cell is None or not fract
    if err3:
        bad('rewrite', 'exc:' + exc_sig(err3), 'second write/read pass raised %r' % (err3[0],), text=T1)
    else:
        if T3 != T2:
            d = [(x, y) for x, y in zip(T2.split('\n'), T3.split('\n')) if x != y][:3]
            bad('rewrite', 'T3!=T2:' + (d[0][0].split()[0] if d and d[0][0].split() else '?'), 'writing the re-read structure again does not give identical text: %r' % (d,), T2=T2, T3=T3)
        if incell and T2 != T1:
            d = [(x, y) for x, y in zip(T1.split('\n'), T2.split('\n')) if x != y][:3]
            bad('rewrite', 'T2!=T1:' + (d[0][0].split()[0] if d and d[0][0].split() else '?'), 'writing the re-read structure gives different text for an in-cell input: %r' % (d,), T1=T1, T2=T2)
    if sc['kind'] == 'write' and a.cell is not None and sc['fr'] in (0, 1) and sc['ch'] == 0:
        # histories: the object was written before; what is written next must state its content *now*
        def states_now(obj, what):
            t, e = call(save, obj, fract); out['evals'] += 1; out['compared'] += 1
            if e:
                bad('write', 'history-exc:' + exc_sig(e), '%s: save_p1_cif raised %r' % (what, e[0])); return
            for x in text_states(obj, t, fract)[:2]:
                bad('text-states-structure', 'history:' + x.split(' ')[0], '%s: %s' % (what, x), text=t)
        h = a.copy(); call(save, h, fract); call(h.cell_abc_alpha_beta_gamma)
        r, e = call(h.replicate, (2, 1, 1))
        if not e:
            states_now(r, 'written, replicated 2x1x1, the replica written')
        h.cell = np.asarray(h.cell, float) * np.array([[1.0], [1.5], [1.0]])
        states_now(h, 'written, then the cell was stretched along b, written again')
        h.positions[:] = np.asarray(h.positions) * 0.5
        states_now(h, 'written, then the positions were scaled in place, written again')
        # a copy extended by a fragment that brings a new extra column: the original must still be written as before
        o = a.copy(); cp = o.copy()
        g = Atoms(elements=['He'], positions=[(0.3, 0.3, 0.3)], extra_atom_labels=['_atom_site_occupancy_x'], extra_atom_fields=[('0.5',)])
        _, e = call(cp.extend, g)
        if not e:
            t, e2 = call(save, o, fract); out['evals'] += 1; out['compared'] += 1
            if e2 or t != T1:
                bad('write', 'history:copy-extended', 'a copy() of the structure was extended by an atom with a new extra column; writing the original afterwards %s' % ('raised %r' % (e2[0],) if e2 else 'gives another text than before'))
    nk = sum(1 for x in TSHAPES[sc['ts']] if x)
    out['outcomes']['kinds=%d xcols=%d %s %s' % (nk, sc['xc'], 'fract' if fract else 'cart', 'incell' if incell else 'wrapped')] = 1
    out['nontrivial'] = 1 if (nk >= 2 or sc['xc']) else 0
    if sc['cell'] == 1 and sc['ts'] == 3 and sc['xc'] == 0 and sc['ch'] == 1 and sc['fr'] == 1 and fract:
        out['samples'] = [dict(scenario=sc, text=T1)]
    return out
