"""C12 - replication describes the same crystal in a larger cell.

E1, exhaustive: cells x every (a,b,c) in {1..R}^3 x structures (bare atoms; all term kinds incl.
impropers; extra columns; no tables).  Oracle: cell rows a*A, b*B, c*C; exactly one replica of every
original atom at every lattice offset with the same resolved record; every term once per image
between that image's replicas with the same type id; type tables equal; original unchanged;
1x1x1 is the identity.
"""
import itertools, io
import numpy as np
from mc.checks.common import *
from mc.alphabet.geom import CELLS

ENGINE = 'E1 product'

STRUCTS = [
    ('bare atoms (elements only)', lambda cell: Atoms(elements='CNOH', positions=[(0.5, 0.5, 0.5), (1.7, 0.6, 0.4), (2.5, 1.6, 0.9), (7.9, 8.2, 8.8)], cell=cell)),
    ('4 atoms, all term kinds incl. improper, tables', lambda cell: mk(4, True, cell=cell)),
    ('5 atoms, extra columns, tables, duplicate bond', lambda cell: mk(5, True, xf=True, cell=cell, dup=True)),
    ('4 atoms, all term kinds, no tables', lambda cell: mk(4, False, cell=cell)),
    ('2 atoms, charges and groups only', lambda cell: mk(2, True, cell=cell, kinds=[])),
    ('2 atoms, exactly one bond, tables', lambda cell: mk(2, True, cell=cell)),
    ('4 atoms, impropers only, tables', lambda cell: mk(4, True, cell=cell, kinds=['improper'])),
    ('4 atoms, angles + impropers only, no tables', lambda cell: mk(4, False, cell=cell, kinds=['angle', 'improper'])),
    ('4 atoms, dihedrals only, extra columns', lambda cell: mk(4, True, cell=cell, kinds=['dihedral'], xf=True)),
]


def late_terms(cell):
    """17000 atoms: 16994 unbonded filler atoms, then a 6-atom chain with every term kind"""
    a = mk(6, True, cell=cell); nf = 16994
    g = np.array([(0.2 + 0.35 * (i % 26), 3.0 + 0.35 * ((i // 26) % 26), 0.3 + 0.35 * (i // 676)) for i in range(nf)]) @ (np.asarray(cell) / np.abs(np.asarray(cell)).max())
    kw = dict(atom_types=[4] * nf + [int(t) for t in a.atom_types], atom_type_elements=list(a.atom_type_elements) + ['He'], atom_type_labels=list(a.atom_type_labels) + ['He_f'], atom_type_masses=list(a.atom_type_masses) + [4.0026],
              pair_coeffs=list(a.pair_coeffs) + ['pc_He 0.0'], positions=np.vstack([g, np.asarray(a.positions)]), charges=[0.0] * nf + list(a.charges), groups=[3] * nf + list(a.groups), cell=np.array(cell, float))
    for k in KINDS:
        kw[ATTR[k]] = [tuple(int(x) + nf for x in row) for row in np.asarray(getattr(a, ATTR[k])).reshape(-1, ARITY[k])]
        kw[k + '_types'] = [int(x) for x in getattr(a, k + '_types')]; kw[k + '_type_coeffs'] = list(getattr(a, k + '_type_coeffs'))
    return Atoms(**kw)


STRUCTS.append(('17000 atoms: unbonded filler, then a 6-atom chain with every term kind', late_terms))


def _warm_reads(a):
    call(lambda: (list(a.elements), list(a.symbols) if hasattr(a, 'symbols') else None, len(a), a.num_atom_types)); call(a.cell_abc_alpha_beta_gamma)
    call(a.save_lmpdat, io.StringIO()); call(a.save_p1_cif, io.StringIO())


def _warm_search(a):
    from mofun import find_pattern_in_structure
    call(find_pattern_in_structure, a, Atoms(elements=[str(a.elements[0])], positions=[(0.0, 0.0, 0.0)]))
    call(a.to_ase)


HISTORIES = [('read elements / symbols / cell parameters and save (LAMMPS, CIF) before replicating', _warm_reads), ('search and convert to ASE before replicating', _warm_search),
             ('replicate once (result discarded) before replicating', lambda a: call(a.replicate, (2, 1, 1))), ('replicate a replica: first 1x2x1, then the requested factors', 'replica')]


def plan(tier, seed):
    Rmax = 3 if tier == 'quick' else 4
    cells = list(range(5)) if tier == 'quick' else list(range(6))
    scs = [dict(cell=ci, s=si, dims=list(d)) for ci in cells for si in range(len(STRUCTS) - 1) for d in itertools.product(range(1, Rmax + 1), repeat=3)]
    # histories: read-only calls on the original first, replication of a replica, operations on the replica afterwards
    scs += [dict(cell=ci, s=si, dims=list(d), history=h) for ci in (0, 2) for si in (1, 2, 5) for d in ((2, 1, 1), (1, 1, 1), (1, 2, 2)) for h in range(len(HISTORIES))]
    # beyond the small bound: large replication factors (49 = 7*7 is the first r with 1/(1/r) != r in doubles; 98, 103, 107 likewise) ...
    for ci in (0, 2):
        for si in (5, 1):
            for d in ([48, 1, 1], [49, 1, 1], [1, 2, 49], [1, 98, 1], [2, 1, 103], [107, 1, 1], [1, 1, 64], [7, 7, 1]):
                if si == 1 and max(d) > 50:
                    continue
                scs.append(dict(cell=ci, s=si, dims=d))
    # ... and more than 2^15 atoms in the result, with terms on the last atoms of the last image
    scs += [dict(cell=ci, s=len(STRUCTS) - 1, dims=d) for ci in (0, 2) for d in ([2, 1, 1], [1, 1, 2])]
    return dict(scenarios=scs, exhaustive=True, chunk=20,
                menus=dict(cells=[CELLS[i][0] for i in cells], structures=[s[0] for s in STRUCTS], dims='{1..%d}^3; large factors (48,1,1) (49,1,1) (1,2,49) (1,98,1) (2,1,103) (107,1,1) (1,1,64) (7,7,1)' % Rmax),
                bounds=dict(max_factor=Rmax), rule='one scenario per (cell, structure, replication triple); non-trivial = more than one image and the structure has terms',
                assumptions=['reference model mc/ref/structure.py'])


def run(sc, ctx):
    out = dict(evals=1, compared=1, violations=[], outcomes={}, hashes={h64(sc)}, nontrivial=0)
    cell = CELLS[sc['cell']][1]
    A = STRUCTS[sc['s']][1](cell.copy())
    dims = tuple(sc['dims'])
    name = '%s in %s x%s' % (STRUCTS[sc['s']][0], CELLS[sc['cell']][0], dims)
    if 'history' in sc:
        hname, h = HISTORIES[sc['history']]
        if h == 'replica':
            A, err = call(A.replicate, (1, 2, 1))
            if err:
                return out
            call(lambda: list(A.elements)); cell = np.asarray(A.cell, float)
        else:
            h(A)
        name += ' after: ' + hname
    before = raw_state(A)
    r, err = call(A.replicate, dims)
    if err:
        out['violations'].append(viol('replicate', 'exc:' + exc_sig(err), 'replicate raised %r: %s' % (err[0], name), sc, tb=err[1]))
        return out
    bad = []
    if raw_state(A) != before:
        bad.append(('original-unmodified', 'replicate modified the original object'))
    exp_cell = cell * np.array(dims, dtype=float).reshape(3, 1)
    if r.cell is None or np.asarray(r.cell).shape != (3, 3) or np.abs(np.asarray(r.cell, dtype=float) - exp_cell).max() > 1e-9:
        bad.append(('cell', 'cell is %r, expected rows a*A, b*B, c*C = %r' % (None if r.cell is None else np.asarray(r.cell).tolist(), exp_cell.tolist())))
    try:
        ra, rt = view(r)
    except Inconsistent as e:
        out['violations'].append(viol('replicate', 'inconsistent', '%s: %s (%s)' % (name, e, e.clause), sc)); return out
    ref = RefStructure.of(A).replicated(dims)
    fa, ft = ref.view()
    nimg = dims[0] * dims[1] * dims[2]
    if len(ra) != len(fa):
        bad.append(('atoms', '%d atoms, expected %d x %d' % (len(ra), nimg, len(A))))
    else:
        # match every reference replica to exactly one real atom (order of images is not specified)
        rpos = np.array([x[-1] for x in ra]).reshape(-1, 3); used = {}; perm = {}
        tol = 1e-9 * max(1.0, np.abs(exp_cell).max() / 10.0)
        near = None
        if len(fa) > 2000:
            from scipy.spatial import cKDTree
            near = cKDTree(rpos).query_ball_point(np.array([y[-1] for y in fa]).reshape(-1, 3), r=2 * tol, p=np.inf)
        for j, y in enumerate(fa):
            cand = [i for i in (np.where(np.abs(rpos - np.array(y[-1])).max(axis=1) <= tol)[0] if near is None else near[j]) if ra[i][:-1] == y[:-1] and i not in used]
            if len(cand) != 1:
                bad.append(('atoms', 'replica of %r at %r appears %d times (expected exactly once)' % (y[:3], y[-1], len(cand)))); break
            used[cand[0]] = j; perm[cand[0]] = j
        if not bad or all(b[0] != 'atoms' for b in bad):
            for k in KINDS:
                got = sorted((tuple(perm[i] for i in t), c, x) for t, c, x in rt[k])
                exp = sorted((t, '#' + c.split(':')[1] if c.startswith('#') else c, x) for t, c, x in ft[k])   # ids are shared with the original
                if got != exp:
                    bad.append(('terms', '%ss differ: got %r expected %r' % (k, got[:4], exp[:4]))); break
            # same type ids as the original, per image
            for k in KINDS:
                t0 = np.asarray(getattr(A, k + '_types')).tolist(); t1 = np.asarray(getattr(r, k + '_types')).tolist()
                if sorted(t1) != sorted(t0 * nimg):
                    bad.append(('terms', '%s type ids %r are not %d copies of %r' % (k, t1, nimg, t0)))
    for tab in ['atom_type_elements', 'atom_type_labels', 'atom_type_masses', 'pair_coeffs'] + [k + '_type_coeffs' for k in KINDS]:
        if [str(x) for x in getattr(r, tab)] != [str(x) for x in getattr(A, tab)]:
            bad.append(('tables', '%s changed: %r -> %r' % (tab, list(getattr(A, tab)), list(getattr(r, tab)))))
    for k in ['atom'] + KINDS:
        la, lr = list(getattr(A, 'extra_%s_labels' % k)), list(getattr(r, 'extra_%s_labels' % k))
        fr_ = np.asarray(getattr(r, 'extra_%s_fields' % k)); nrow = len(r.atom_types) if k == 'atom' else len(getattr(r, ATTR[k]))
        if la != lr or (fr_.ndim == 2 and fr_.shape[1] != len(la)) or (len(la) and len(fr_) != nrow):
            bad.append(('tables', 'extra %s columns of the replica are %r (field table shape %r), the original has %r' % (k, lr, fr_.shape, la)))
    if dims == (1, 1, 1) and raw_state(r) != before:
        bad.append(('identity', '1x1x1 replication is not the identity'))
    els, err = call(lambda: [str(x) for x in r.elements])
    if not bad and (err or els != [x[0] for x in ra]):
        bad.append(('atoms', 'replica.elements gives %r, the per-atom types of the replica resolve to %r' % (err[0] if err else els[:8], [x[0] for x in ra][:8])))
    if 'history' in sc and not bad:
        # later operations on the replica must not reach the original, and vice versa
        for msg in alias_probe(r, [('the original', A)], 'the replica'):
            bad.append(('original-unmodified', msg))
    for clause, msg in bad[:3]:
        out['violations'].append(viol('replicate', clause, '%s: %s' % (name, msg), sc, result=describe(r) if len(r.atom_types) < 200 else None))
    nterms = sum(len(v) for v in ft.values())
    out['outcomes']['images=%d terms=%d' % (nimg, nterms)] = 1
    if nimg > 1 and nterms:
        out['nontrivial'] = 1
    if sc['cell'] == 2 and sc['s'] == 1 and dims == (2, 1, 3):
        out['samples'] = [dict(cell=cell.tolist(), dims=dims, structure=describe(A), result_cell=np.asarray(r.cell).tolist(), result_atoms=len(ra))]
    return out
