"""Shared machinery for the replacement properties (C04, C05, C07, C08): payload structures,
(search, replacement) pattern pairs, recording of the matches actually used, E2 over the draws."""
import itertools
import numpy as np
from mc.checks.findlib import *
from mc.ref.geom import wrap, frac, lattice_residual
import mofun.mofun as MM
from mofun import replace_pattern_in_structure

OFF = np.array([3.3, -1.2, 0.7])          # patterns are given away from the origin
ANCHORS = [(0.03, 0.03, 0.03), (0.53, 0.53, 0.03), (0.53, 0.03, 0.53), (0.03, 0.53, 0.53)]
REC = {}
_orig_find = MM.find_pattern_in_structure


def _recording_find(*a, **k):
    r = _orig_find(*a, **k)
    REC['last'] = r
    return r


_explorer = explorer


def explorer(ctx):
    """the shared explorer, answering random.sample with ordered selections (every k-permutation for <= 5 matches)"""
    ex = _explorer(ctx)
    ex.rshim.permutations = True
    return ex


MM.find_pattern_in_structure = _recording_find      # harness-side seam: replace_* looks the name up in its module


def pairs(pname):
    """[(name, replacement elements, replacement coordinates in the search pattern's frame)]"""
    pel, pp = G.pattern(pname); k = len(pel)
    out = [('empty', [], np.zeros((0, 3)))]
    if k > 1:
        out.append(('subset', pel[:-1], pp[:-1].copy()))
    out.append(('one element changed', pel[:-1] + ['Xe'], pp.copy()))
    out.append(('all elements changed', ['Xe'] * k, pp.copy()))
    out.append(('grown (shared core + 2 atoms)', pel + ['F', 'He'], np.vstack([pp, pp[-1] + [0.4, 0.9, 1.1], pp[0] + [-1.2, 0.3, -0.8]])))
    out.append(('identical', list(pel), pp.copy()))
    if k > 1:
        out.append(('identical, atoms listed in reverse order', list(pel)[::-1], pp[::-1].copy()))
        out.append(('grown, shared atoms listed last and reversed', ['F'] + list(pel)[::-1], np.vstack([pp[-1] + [0.4, 0.9, 1.1], pp[::-1]])))
    out.append(('grown, with atoms 12 A and 21 A away (more than one / two cell lengths)', pel + ['F', 'He'], np.vstack([pp, pp[0] + [12.0, 0.7, 0.3], pp[0] + [-0.5, 21.0, 1.0]])))
    out.append(('identical but last atom displaced by 0.04 A', list(pel), np.vstack([pp[:-1], pp[-1:] + [0.0, 0.04, 0.0]])))
    out.append(('disjoint larger', ['Xe', 'He', 'Ne'][:1] * 1 + ['He', 'Ne'] + ['Kr'] * (k - 1), np.vstack([pp[:1] + [0.3, 0.3, 0.3], pp[:1] + [1.0, -0.9, 0.4], pp[:1] + [-0.8, 1.1, 0.2]] + [pp[j:j + 1] + [0.2, -0.35, 0.45] for j in range(1, k)])))
    return out


PAIR_NAMES = [p[0] for p in pairs('CNO')]
INSERTING = ['one element changed', 'all elements changed', 'grown (shared core + 2 atoms)', 'grown, shared atoms listed last and reversed', 'grown, with atoms 12 A and 21 A away (more than one / two cell lengths)', 'identical but last atom displaced by 0.04 A', 'disjoint larger']


def shared_map(pel, pp, rel, rp):
    """replacement index -> search index of atoms common to both (same element, same coordinates);
    first search atom that qualifies, as the library documents ('exact same coordinates')"""
    m = {}
    for i in range(len(rel)):
        for j in range(len(pel)):
            if np.linalg.norm(rp[i] - pp[j]) < 1e-5 and rel[i] == pel[j]:
                m[i] = j; break
    return m


def payload(spec, cell, seed):
    """real Atoms with distinguishable per-atom payload + two bystander atoms; returns (atoms, records)"""
    el = list(spec['el']); pos = np.asarray(spec['pos'])
    by = wrap((np.array([[0.28, 0.78, 0.27], [0.77, 0.27, 0.76]]) + 0.0) @ cell, cell)
    el = el + ['Kr', 'Ar']; pos = np.vstack([pos, by])
    n = len(el)
    labels = ['%s_%s' % (e, 'ab'[i % 2]) for i, e in enumerate(el)]
    uniq = list(dict.fromkeys(zip(el, labels)))
    masses = [MASS[e] + 0.001 * (1 + j) for j, (e, l) in enumerate(uniq)]
    a = Atoms(atom_types=[uniq.index(t) for t in zip(el, labels)], atom_type_elements=[u[0] for u in uniq], atom_type_labels=[u[1] for u in uniq], atom_type_masses=masses,
              positions=pos, charges=[0.01 * (i + 1) for i in range(n)], groups=[i + 1 for i in range(n)], cell=cell.copy())
    return a


def pattern_atoms(el, pos, q0=0.5, g0=50):
    if len(el) == 0:
        return Atoms()
    return Atoms(elements=list(el), positions=np.asarray(pos, float) + OFF, charges=[q0 + 0.125 * i for i in range(len(el))], groups=[g0 + i for i in range(len(el))])


GROWN = 'grown (shared core + 2 atoms)'


def scale_case(sc, ctx):
    """cases beyond the small bound: sc['scale'] = 'sheet' (31-atom chiral pattern, a proper and a mirror-image copy),
    'large' (more than 2^15 atoms, C-O-H copies stored late / split around the filler)"""
    if sc['scale'] == 'sheet':
        cell = G.SHEET_CELLS[sc['variant']]
        pel, pp = G.sheet_pattern(height=sc['height'])
        el, pos, proper, mirror = G.sheet_structure(cell, G.generic_rotations(ctx['seed'], 3)[1], (0.5, 0.5, 0.5), (0.02, 0.97, 0.01), height=sc['height'])
        planted = [proper]; cellname = 'sheet cell %d' % sc['variant']
    else:
        cell, pos, el, pp, pel, planted = G.large_case(sc['variant']); cellname = 'cubic 64, %d atoms' % len(el)
    pel = list(pel); pp = np.asarray(pp, float)
    spec = dict(el=list(el), pos=np.asarray(pos), pp=pp, pel=pel, planted=planted)
    s = payload(spec, cell, ctx['seed'])
    rel = pel + ['F', 'He']; rp = np.vstack([pp, pp[-1] + [0.4, 0.9, 1.1], pp[0] + [-1.2, 0.3, -0.8]])
    return dict(s=s, sp=pattern_atoms(pel, pp, q0=-0.7, g0=90), rp=pattern_atoms(rel, rp), spec=spec, cell=cell, pel=pel, pp=pp, rel=rel, rpos=rp, pair=GROWN, cellname=cellname)


def build_case(sc, ctx):
    """sc: cell, pat, subpose, ncopies, pair, place (first anchor index into PLACEMENTS) ..."""
    if 'scale' in sc:
        return scale_case(sc, ctx)
    cell = G.CELLS[sc['cell']][1]
    sp_ = sub_poses(ctx['seed'])
    rot = sp_[sc['subpose']]
    ncopy = sc.get('ncopies', 1)
    first = G.PLACEMENTS[sc['place']] if ncopy == 1 else ANCHORS[0]
    extra = [(sp_[(sc['subpose'] + j) % len(sp_)], ANCHORS[j]) for j in range(1, ncopy)]
    spec = G.build(cell, sc['pat'], rot, first, decoy=sc.get('decoy', 'none'), atol=sc.get('build_atol', sc['atol']), noise=bool(sc.get('noise', 0)), seed=ctx['seed'], extra_copies=extra)
    s = payload(spec, cell, ctx['seed'])
    pel, pp = G.pattern(sc['pat'])
    name, rel, rp = pairs(sc['pat'])[sc['pair']]
    sp = pattern_atoms(pel, pp, q0=-0.7, g0=90)
    rpat = pattern_atoms(rel, rp)
    if sc.get('rcell') and len(rel):      # the replacement pattern carries a cell of its own (as patterns loaded from CIF / LAMMPS files do)
        rpat.cell = np.array([[4.0, 0, 0], [1.0, 5.0, 0], [0.5, -0.5, 6.0]]) if sc['rcell'] == 2 else np.diag([30.0, 30.0, 30.0])
    if sc.get('frame'):      # both patterns written in a coordinate frame far from the origin
        sp.positions = sp.positions + np.array(sc['frame'], float)
        if len(rel):
            rpat.positions = rpat.positions + np.array(sc['frame'], float)
    return dict(s=s, sp=sp, rp=rpat, spec=spec, cell=cell, pel=pel, pp=pp, rel=list(rel), rpos=np.asarray(rp, float), pair=name, cellname=G.CELLS[sc['cell']][0])


def replace_executions(c, sc, ctx, bound, **kw):
    """[(answers(with .trace), out structure | None, nm, err, recorded find result)] for every draw answer within the bound"""
    ex = explorer(ctx)
    s, sp, rp = c['s'], c['sp'], c['rp']
    args = dict(atol=sc['atol'], replace_all=bool(sc.get('replace_all', 0)), replace_fraction=sc.get('fraction', 1.0), return_num_matches=True)
    args.update(kw)

    def fn():
        REC.pop('last', None)
        res, err = call(replace_pattern_in_structure, s, sp, rp, **args)
        return res, err, REC.get('last')
    out = []
    for answers, (res, err, rec) in ex.explore(fn, bound=bound, cap=ctx.get('cap', 60 if ctx['tier'] == 'quick' else 200),
                                               observe=lambda r: repr((None if r[0] is None else (describe(r[0][0]), r[0][1]), r[1] and repr(r[1][0])))):
        out.append((answers, None if err else res[0], None if err else res[1], err, rec))
    return out


def selected_matches(answers, rec, fraction):
    """the matches the call had to replace: all found ones, or the sample answer"""
    idxs, poss, quats = rec
    M = len(idxs)
    if fraction >= 1.0:
        return list(range(M))
    pts = [t for t in answers.trace if t[0].startswith('sample')]
    if len(pts) != 1:
        return None
    k, m = int(pts[0][0].split()[1]), int(pts[0][0].split()[3])
    if m != M:
        return None
    if pts[0][0].startswith('sample-ordered'):
        return list(list(itertools.permutations(range(M), k))[pts[0][2]])
    from mc.engine.choices import nth_combination
    return list(nth_combination(M, k, pts[0][2]))


def case_dump(c, sc):
    return dict(scenario=sc, pair=c['pair'], cell=c['cell'].tolist(), structure=describe(c['s']), search=dict(elements=c['pel'], positions=(c['pp'] + OFF).tolist()),
                replacement=dict(elements=c['rel'], positions=(c['rpos'] + OFF).tolist() if len(c['rel']) else []))


def combined_c(pp, extra):
    """amplification constant for [search coords || replacement-only coords]: axis points from the search pattern, orientation
    point = the combined point farthest from the axis (finite also for collinear search patterns, whose twist is free)"""
    if len(pp) < 2:
        return 1.0
    P_all = np.vstack([pp, extra]) if len(extra) else np.asarray(pp, float)
    a1, a2, _ = resolve_hints(pp)
    c = cconst(P_all, a1, a2, None)
    return c if np.isfinite(c) else 2 + 2 * np.linalg.norm(P_all - P_all[a1], axis=1).max() / np.linalg.norm(P_all[a2] - P_all[a1])


# ---------------------------------------------------------------------------------------------------------------------
# histories: a replacement on objects with a past must equal the replacement on fresh objects with the same content
from mc.checks import histories as H

RH_BASES = [dict(cell=ci, pat='CNO', subpose=4, ncopies=2, place=0, pair=[p[0] for p in pairs('CNO')].index(pn), replace_all=0, atol=0.05, fraction=1.0, noise=0)
            for ci in (0, 2) for pn in (GROWN, 'one element changed')]


def _rep(ctx, S, SP, RP, **kw):
    (res, err), _ = explorer(ctx).run(lambda: call(replace_pattern_in_structure, S, SP, RP, **kw), ())
    return res, err


def _other_replacement(c, which):
    if 'other' in c:
        return c['other'](which)
    name, rel, rp = [p for p in pairs('CNO') if p[0] == which][0]
    return pattern_atoms(rel, rp, q0=0.9, g0=70)


def _rh_twice(ctx, e):
    _rep(ctx, e['S'], e['SP'], e['RP'], **e['kw'])


def _rh_other_replacement_first(ctx, e):
    _rep(ctx, e['S'], e['SP'], _other_replacement(e['c'], 'all elements changed'), **e['kw'])


def _rh_identical_first(ctx, e):
    _rep(ctx, e['S'], e['SP'], _other_replacement(e['c'], 'identical'), **e['kw'])


def _rh_translate_replacement(ctx, e):
    _rep(ctx, e['S'], e['SP'], e['RP'], **e['kw']); call(e['RP'].translate, np.array([0.0, 0.03, 0.0]))


def _rh_translate_both(ctx, e):
    _rep(ctx, e['S'], e['SP'], e['RP'], **e['kw']); v = np.array([4.0, -2.5, 1.0]); call(e['RP'].translate, v); call(e['SP'].translate, v)


def _rh_on_replica_of_result(ctx, e):
    r, err = _rep(ctx, e['S'], e['SP'], e['RP'], **e['kw'])
    if err:
        e['skip'] = 'first step raised'; return
    e['S'] = r[0].replicate((2, 1, 1)); e['RP'] = _other_replacement(e['c'], 'one element changed')


def _rh_on_result_with_larger_cell(ctx, e):
    r, err = _rep(ctx, e['S'], e['SP'], e['RP'], **e['kw'])
    if err:
        e['skip'] = 'first step raised'; return
    r = r[0]; r.cell = np.asarray(r.cell, float) * np.array([[1.0], [2.0], [1.0]]); e['S'] = r; e['RP'] = _other_replacement(e['c'], GROWN)


def _rh_chain_on_result(ctx, e):
    r, err = _rep(ctx, e['S'], e['SP'], _other_replacement(e['c'], 'one element changed'), **e['kw'])
    if err:
        e['skip'] = 'first step raised'; return
    pel, pp = e['c']['pel'], e['c']['pp']
    e['S'] = r[0]; e['SP'] = pattern_atoms(pel[:2], pp[:2], q0=-0.7, g0=90); e['RP'] = pattern_atoms([pel[0], 'Kr'], pp[:2], q0=0.3, g0=40)


def _rh_find_then_shift(ctx, e):
    explorer(ctx).run(lambda: call(find_pattern_in_structure, e['S'], e['SP'], atol=e['kw'].get('atol', 0.05)), ()); H.wrap_in_place(e['S'], np.array([0.21, 0.34, -0.18]))


def _rh_replace_then_shift(ctx, e):
    _rep(ctx, e['S'], e['SP'], e['RP'], **e['kw']); H.wrap_in_place(e['S'], np.array([-0.3, 0.15, 0.4]))


def _rh_replace_then_translate(ctx, e):
    _rep(ctx, e['S'], e['SP'], e['RP'], **e['kw']); call(e['S'].translate, np.array([0.003, 0.002, 0.004]))


def _rh_copy_of_result(ctx, e):
    r, err = _rep(ctx, e['S'], e['SP'], e['RP'], **e['kw'])
    if err:
        e['skip'] = 'first step raised'; return
    e['S'] = r[0].copy(); e['RP'] = _other_replacement(e['c'], 'all elements changed')


def _rh_nothing_found(ctx, e):
    k = len(e['c']['pp']); e['SP'] = pattern_atoms(['Zr', 'Hf', 'Ta', 'W', 'Re', 'Os', 'Ir'][:k], e['c']['pp'], q0=-0.7, g0=90)       # elements that do not occur: nothing is replaced


def _rh_fraction_zero(ctx, e):
    e['kw'] = dict(e['kw'], replace_fraction=0.0)


REPLACE_HISTORIES = [('nothing before (fresh objects)', lambda ctx, e: None), ('the same replacement once before', _rh_twice), ('another replacement with the same search-pattern object first', _rh_other_replacement_first),
                     ('a replacement with the same coordinates and other elements first', _rh_identical_first), ('replace, translate() the replacement pattern by 0.03 A, replace', _rh_translate_replacement),
                     ('replace, translate() both patterns, replace', _rh_translate_both), ('replace, replicate the result 2x1x1, replace in the replica', _rh_on_replica_of_result),
                     ('replace, double the cell of the result along b, replace in it', _rh_on_result_with_larger_cell), ('replace, then a second replacement of a sub-pattern in the result', _rh_chain_on_result),
                     ('search, shift-and-wrap the structure in place, replace', _rh_find_then_shift), ('replace, shift-and-wrap the structure in place, replace', _rh_replace_then_shift),
                     ('replace, translate() the structure slightly, replace', _rh_replace_then_translate), ('replace, copy() the result, replace in the copy', _rh_copy_of_result),
                     ('search pattern that does not occur', _rh_nothing_found), ('replace_fraction = 0', _rh_fraction_zero)]


def replace_history_scenarios():
    return [dict(rhistory=hi, base=bi) for bi in range(len(RH_BASES)) for hi in range(len(REPLACE_HISTORIES))]


def run_replace_history(sc, ctx, build=None, extra_kw=None):
    """-> env: objects after the history, result of the final replacement on them and on fresh equal objects, untouched / shared-data messages"""
    if build is None:
        base = RH_BASES[sc['base']]
        c = build_case(base, ctx)
    else:
        c = build(sc, ctx)
    e = dict(S=c['s'], SP=c['sp'], RP=c['rp'], c=c, kw=dict(atol=0.05, return_num_matches=True, **(extra_kw or {})), name=REPLACE_HISTORIES[sc['rhistory']][0])
    REPLACE_HISTORIES[sc['rhistory']][1](ctx, e)
    if e.get('skip'):
        return e
    fr = np.asarray(e['S'].positions, float) @ np.linalg.inv(np.asarray(e['S'].cell, float))
    if fr.min() < 0 or fr.max() >= 1:
        e['skip'] = 'the history moved an atom out of the cell'; return e
    fS, fSP, fRP = H.fresh(e['S']), H.fresh(e['SP']), H.fresh(e['RP']) if len(e['RP'].atom_types) else Atoms()
    inputs = [('the structure', e['S']), ('the search pattern', e['SP']), ('the replacement pattern', e['RP'])]
    before = [raw_state(o) for _, o in inputs]
    e['res'], e['err'] = _rep(ctx, e['S'], e['SP'], e['RP'], **e['kw'])
    e['msgs'] = untouched(before, inputs)
    e['fresh_ok'] = fS is not None and fSP is not None and fRP is not None
    if e['fresh_ok']:
        e['fres'], e['ferr'] = _rep(ctx, fS, fSP, fRP, **e['kw'])
    if not e['err']:
        e['result_state'] = raw_state(e['res'][0]); e['nm'] = e['res'][1]
        e['msgs'] += alias_probe(e['res'][0], inputs, 'the returned structure')
    return e


def judge_replace_history(e, sc, out, clause):
    """violations of 'behaves like fresh objects with the same content', 'inputs untouched', 'no shared data'"""
    if e.get('skip'):
        out['outcomes']['history skipped'] = 1; return
    out['evals'] += 2; out['compared'] += 1
    desc = dict(history=e['name'], base=sc.get('base'))
    for msg in e['msgs']:
        out['violations'].append(viol(clause, 'history:' + ('shared-data' if 'share data' in msg else 'input-modified'), 'history "%s": %s' % (e['name'], msg), sc, case=desc))
    if not e['fresh_ok']:
        out['outcomes']['history: no fresh equivalent'] = 1; return
    if bool(e['err']) != bool(e['ferr']):
        out['violations'].append(viol(clause, 'history:exc', 'after the history "%s" the replacement %s; on freshly built objects with the same content it %s' % (
            e['name'], 'raised %r' % (e['err'][0],) if e['err'] else 'returned a structure', 'raised %r' % (e['ferr'][0],) if e['ferr'] else 'returned a structure'), sc, case=desc)); return
    if e['err']:
        if type(e['err'][0]) is not type(e['ferr'][0]):
            out['violations'].append(viol(clause, 'history:exc', 'after the history "%s" the replacement raised %r, on fresh objects %r' % (e['name'], e['err'][0], e['ferr'][0]), sc, case=desc))
        return
    fs = raw_state(e['fres'][0])
    if e['result_state'] != fs or e['nm'] != e['fres'][1]:
        d = [i for i, (x, y) in enumerate(zip(e['result_state'], fs)) if x != y]
        out['violations'].append(viol(clause, 'history:differs', 'after the history "%s" the replacement (%r matches) gives a structure that differs from the one obtained on freshly built objects with the same content (%r matches) in raw-state fields %r; e.g. atoms %d vs %d' % (
            e['name'], e['nm'], e['fres'][1], d[:6], len(e['res'][0].atom_types) if False else e['result_state'][1][0][0] if e['result_state'][1][0] else 0, fs[1][0][0] if fs[1][0] else 0), sc, case=desc))
    out['outcomes']['history replaced=%r' % (e['nm'],)] = 1; out['nontrivial'] = 1 if e['nm'] else 0
