"""C08 - self-replacement is a no-op and element substitutions are reversible.

E3-style depth-2 histories over {replace(P,P), replace(A,B), replace(B,A), search(A)} on structures with
planted occurrences and attached terms (bonds / angles / dihedrals inside and across the matches), all
CELLS, every draw answer of both steps (E2); plus the repository's real MOF files.
Oracles: (1) after replace(P,P): per-atom (position, element, charge, group) sequence, atom count and
the sets of bond / angle / torsion tuples (reversal-canonical) are unchanged; (2) after A->B->A (no B
present before): the multiset of (element, position modulo lattice) is restored; (3) after replacing
all occurrences of A by a B that does not contain A, a second search for A finds nothing.
"""
import os
import numpy as np
from mc.checks.replacelib import *
from mc.engine.run import REPO

ENGINE = 'E3 state graph'
PATS = ['Zr', 'CN', 'OCO', 'CNO', 'BF3', 'CH4', 'CHHB']
VARIANTS = ['self', 'self, pattern carries bonds', 'A->B->A', 'A->B then search A']
REAL = [('uio66-triclinic / linker (atol 0.2)', 'tests/uio66/uio66-triclinic.lmpdat', dict(atom_format='full'), 'tests/uio66/uio66-linker.cml', 0.2, 'self'),
        ('uio66 / linker', 'tests/uio66/uio66.cif', {}, 'tests/uio66/uio66-linker.cml', 0.05, 'self'),
        ('uio66 / Zr -> Hf -> Zr', 'tests/uio66/uio66.cif', {}, 'Zr', 0.05, 'aba'),
        ('hkust-1 / benzene', 'tests/hkust-1/hkust-1-with-bonds.cif', {}, 'tests/molecules/benzene.xyz', 0.05, 'self'),
        ('uio66-triclinic / Zr -> Hf -> Zr', 'tests/uio66/uio66-triclinic.lmpdat', dict(atom_format='full'), 'Zr', 0.05, 'aba'),
        ('uio66-triclinic / linker -> fluorinated linker, then search (atol 0.2)', 'tests/uio66/uio66-triclinic.lmpdat', dict(atom_format='full'), 'tests/uio66/uio66-linker.cml', 0.2, 'search')]


def plan(tier, seed):
    q = tier == 'quick'
    scs = []
    poses = [0, 4] if q else [0, 1, 3, 4, 5]
    places = [P(0.97, 0.03, 0.97)] if q else [P(0.97, 0.03, 0.97), P(0.5, 0.5, 0.5), P(0.03, 0.97, 0.03), P(0.0, 0.0, 0.0)]
    for ci in range(len(G.CELLS)):
        for pn in PATS:
            for pi in poses:
                for pl in places:
                    for v in range(len(VARIANTS)):
                        for nc in (1, 2):
                            scs.append(dict(kind='gen', cell=ci, pat=pn, subpose=pi, place=pl, variant=v, ncopies=nc, atol=0.05, noise=(pi + pl + v) % 2))
    # tolerances that are needed to match: copies displaced by 0.77 * (0.3 / c) per atom, searched and replaced at atol 0.3
    for ci in range(len(G.CELLS)):
        for pn in PATS[1:]:
            for v in (2, 3):
                scs.append(dict(kind='gen', cell=ci, pat=pn, subpose=4 if (ci + v) % 2 else 1, place=P(0.97, 0.03, 0.97), variant=v, ncopies=2, atol=0.3, build_atol=0.48, noise=1))
    scs += [dict(kind='real', i=i) for i in (list(range(3)) + [5] if q else range(len(REAL)))]
    scs += [dict(kind='large', order=o, variant=v) for o in (0, 1) for v in ('self', 'aba')]
    scs += [dict(sc, kind='rhistory') for sc in replace_history_scenarios()] + [dict(kind='aba-replica', cell=ci, pat=pn) for ci in (0, 2, 4) for pn in ('CNO', 'CHHB')]
    return dict(scenarios=scs, exhaustive=True, chunk=10,
                menus=dict(cells=[c[0] for c in G.CELLS], patterns=PATS, variants=VARIANTS, copies=[1, 2], real=[r[0] for r in REAL], draws='every answer of both steps within the bound'),
                bounds=dict(history_depth=2, draw_deviation_bound=draw_bound(tier)),
                rule='one scenario per (structure, two-step history); non-trivial = at least one match is replaced in the first step',
                assumptions=['reversibility is compared modulo the lattice within 1e-6 + 2c\'*eps (eps = measured deviation of the planted copy)'])


def canon_t(t):
    t = tuple(int(x) for x in t)
    return min(t, t[::-1])


def term_sets(a):
    return {k: sorted(canon_t(t) for t in np.asarray(getattr(a, ATTR[k])).reshape(-1, ARITY[k])) for k in KINDS}


def atom_seq(a):
    return [(str(a.elements[i]), tuple(float(x) for x in a.positions[i]), float(a.charges[i]), int(a.groups[i])) for i in range(len(a.atom_types))]


STAR = {'BF3', 'CH4'}


def topology(pname, k):
    """(bonds, angles, dihedrals) in pattern indices: symmetric under the pattern's own symmetry, so that
    any symmetry-equivalent ordering of a match maps them onto the same set of atom tuples"""
    if pname in STAR:
        return [(0, i) for i in range(1, k)], [(i, 0, j) for i in range(1, k) for j in range(i + 1, k)], []
    return [(i, i + 1) for i in range(k - 1)], [(i, i + 1, i + 2) for i in range(k - 2)], [(i, i + 1, i + 2, i + 3) for i in range(k - 3)]


def with_terms(s, spec, pname):
    """attach bonds / angles / dihedrals inside each planted copy and terms across to the bystanders"""
    bonds = []; angles = []; dih = []
    n = len(s.atom_types)
    for pl in spec['planted']:
        pl = list(pl)
        tb, ta, td = topology(pname, len(pl))
        bonds += [tuple(pl[i] for i in t) for t in tb]; angles += [tuple(pl[i] for i in t) for t in ta]; dih += [tuple(pl[i] for i in t) for t in td]
        bonds.append((pl[0], n - 2))
        if len(pl) > 1 and pname not in STAR and pname != 'OCO':
            angles.append((n - 1, pl[0], pl[1]))
    kw = dict(atom_types=list(s.atom_types), atom_type_elements=list(s.atom_type_elements), atom_type_labels=list(s.atom_type_labels), atom_type_masses=list(s.atom_type_masses),
              positions=s.positions.copy(), charges=list(s.charges), groups=list(s.groups), cell=s.cell.copy(),
              bonds=bonds, bond_types=[i % 2 for i in range(len(bonds))], angles=angles, angle_types=[0] * len(angles), dihedrals=dih, dihedral_types=[0] * len(dih))
    return Atoms(**kw)


def match_multiset(orig, final, cell, tol):
    """every (element, position mod lattice) of orig has its own partner in final"""
    inv = np.linalg.inv(cell)
    if len(orig) != len(final):
        return 'atom count %d -> %d' % (len(orig), len(final))
    used = set()
    fpos = np.array([p for _, p in final]).reshape(-1, 3)
    for e, p in orig:
        d = (fpos - np.array(p)) @ inv
        dist = np.abs((d - np.round(d)) @ cell).max(axis=1)
        cand = [i for i in np.argsort(dist) if i not in used and final[i][0] == e and dist[i] <= tol]
        if not cand:
            return 'no %s atom within %.2g of %r (mod lattice) after the round trip; nearest %s at distance %.3g' % (e, tol, np.round(p, 4).tolist(), final[int(np.argmin(dist))][0], dist.min())
        used.add(cand[0])
    return None


def run_gen(sc, ctx, out):
    cell = G.CELLS[sc['cell']][1]
    sc2 = dict(sc); sc2['pair'] = 0
    c = build_case(sc2, ctx)
    s = with_terms(c['s'], c['spec'], sc['pat'])
    pel, pp = c['pel'], c['pp']; k = len(pel)
    variant = VARIANTS[sc['variant']]
    ex = explorer(ctx)
    A = pattern_atoms(pel, pp)
    if variant == 'self, pattern carries bonds' and k > 1:
        tb, ta, td = topology(sc['pat'], k)
        A = Atoms(elements=list(pel), positions=pp + OFF, bonds=[t[::-1] for t in tb][::-1], bond_types=[0] * len(tb), angles=ta, angle_types=[0] * len(ta))
    bel = list(pel[:-1]) + [{'Zr': 'Hf'}.get(pel[-1], 'S')]
    B = pattern_atoms(bel, pp)
    cprime = cconst(pp) if k > 1 else 1.0
    noise_len = 0.6 * 0.8 * sc.get('build_atol', sc['atol']) / cconst(pp) if (sc['noise'] and k > 1) else 0.0
    tol = 1e-6 + 2 * cprime * noise_len
    before = (atom_seq(s), term_sets(s))
    case = dict(scenario=sc, variant=variant, structure=describe(s), pattern=dict(elements=pel, positions=(pp + OFF).tolist()), B=bel)

    def fn():
        if variant.startswith('self'):
            return call(replace_pattern_in_structure, s, A, A.copy(), atol=sc['atol'], return_num_matches=True)
        r1, err = call(replace_pattern_in_structure, s, A, B, atol=sc['atol'], return_num_matches=True)
        if err:
            return None, err
        if variant == 'A->B->A':
            r2, err = call(replace_pattern_in_structure, r1[0], B, A, atol=sc['atol'], return_num_matches=True)
            return (None, err) if err else ((r2[0], r1[1], r2[1], r1[0]), None)
        r2, err = call(MM._orig_find if hasattr(MM, '_orig_find') else find_pattern_in_structure, r1[0], A, atol=sc['atol'])
        return (None, err) if err else ((r1[0], r1[1], r2), None)
    nrep = set()
    for answers, (res, err) in ex.explore(fn, bound=draw_bound(ctx['tier']), cap=60 if ctx['tier'] == 'quick' else 200,
                                          observe=lambda r: repr((None if r[0] is None else (describe(r[0][0]), r[0][1:3]), r[1] and repr(r[1][0])))):
        out['evals'] += 2 if not variant.startswith('self') else 1; out['compared'] += 1
        V = lambda clause, sig, msg: out['violations'].append(viol(clause, sig, '%s [%s, %s, draws %r]' % (msg, variant, G.CELLS[sc['cell']][0], tuple(answers)), sc, case=case, answers=list(answers)))
        if err:
            V('no-result', 'exc:' + exc_sig(err), 'raised %r' % (err[0],)); continue
        nrep.add(res[1])
        if variant.startswith('self'):
            r = res[0]
            after = (atom_seq(r), term_sets(r))
            if len(after[0]) != len(before[0]):
                V('self-noop', 'atom-count', 'identity replacement changed the atom count %d -> %d' % (len(before[0]), len(after[0])))
            elif after[0] != before[0]:
                j = [i for i, (x, y) in enumerate(zip(before[0], after[0])) if x != y][0]
                V('self-noop', 'atoms', 'identity replacement changed atom %d: %r -> %r' % (j, before[0][j], after[0][j]))
            elif after[1] != before[1]:
                kdiff = [kk for kk in KINDS if after[1][kk] != before[1][kk]][0]
                V('self-noop', 'terms', 'identity replacement changed the set of %s tuples: %r -> %r' % (kdiff, before[1][kdiff], after[1][kdiff]))
        elif variant == 'A->B->A':
            r = res[0]; mid = res[3]
            # the B copies of the intermediate structure are displaced copies themselves: they are due to match only
            # when the reference matcher rates them IN at this tolerance (measured deviation eps')
            g = ref_match(np.asarray(mid.positions), [str(e) for e in mid.elements], cell, pp, bel, sc['atol'], cprime) if k > 1 else {}
            n_in = sum(1 for v in g.values() if v[0] == 'IN'); n_poss = sum(1 for v in g.values() if v[0] != 'OUT')
            eps2 = max([v[1] for v in g.values() if v[0] != 'OUT'] or [0.0])
            tol2 = max(tol, 1e-6 + (cprime + 2) * eps2 + noise_len)
            if k == 1 or n_in == n_poss == res[1]:
                if res[1] != res[2]:
                    V('reversible', 'counts', 'A->B replaced %r matches, B->A %r' % (res[1], res[2]))
            elif not (n_in <= res[2] <= n_poss):
                V('reversible', 'counts', 'A->B replaced %r matches, B->A %r; the intermediate structure holds %d copies of B that must match and %d that may' % (res[1], res[2], n_in, n_poss))
            if res[1] != res[2]:
                out['outcomes']['round trip: intermediate copies of B in the gray zone of the tolerance'] = 1
                continue
            d = match_multiset([(e, p) for e, p, _, _ in before[0]], [(e, p) for e, p, _, _ in atom_seq(r)], cell, tol2)
            if d:
                V('reversible', 'multiset', 'A->B->A does not restore the structure: %s' % d)
        else:
            if len(res[2]) != 0:
                V('nothing-left', 'found-again', 'after replacing all %r occurrences of A by B (which does not contain A) a second search for A still reports %r' % (res[1], res[2]))
    out['outcomes']['%s replaced=%s' % (variant[:8], sorted(x for x in nrep if x is not None))] = 1
    if any(nrep):
        out['nontrivial'] = 1
    if sc['cell'] == 3 and sc['pat'] == 'CNO' and sc['variant'] == 2 and sc['ncopies'] == 2 and sc['subpose'] == 4:
        out['samples'] = [case]


def run_real(sc, ctx, out):
    name, sf, kw, pf, atol, mode = REAL[sc['i']]
    s = Atoms.load(os.path.join(REPO, sf), **kw)
    if pf == 'Zr':
        A = Atoms(elements=['Zr'], positions=[(0.0, 0.0, 0.0)]); B = Atoms(elements=['Hf'], positions=[(0.0, 0.0, 0.0)])
    elif pf.endswith('.xyz'):
        import ase.io
        A = Atoms.from_ase_atoms(ase.io.read(os.path.join(REPO, pf)))
    else:
        A = Atoms.load(os.path.join(REPO, pf))
    A = Atoms(elements=list(A.elements), positions=np.asarray(A.positions))      # bare pattern: its own bonds would (rightly) be added to the structure
    ex = explorer(ctx)
    before = (atom_seq(s), term_sets(s))
    V = lambda clause, sig, msg: out['violations'].append(viol(clause, sig, '%s: %s' % (name, msg), sc))
    if mode == 'self':
        (res, err), _ = ex.run(lambda: call(replace_pattern_in_structure, s, A, A.copy(), atol=atol, return_num_matches=True), ())
        out['evals'] += 1; out['compared'] += 1
        if err:
            V('no-result', 'exc:' + exc_sig(err), 'raised %r' % (err[0],)); return
        r, nm = res
        after = (atom_seq(r), term_sets(r))
        if len(after[0]) != len(before[0]):
            V('self-noop', 'atom-count', 'identity replacement changed the atom count %d -> %d' % (len(before[0]), len(after[0])))
        elif after[0] != before[0]:
            j = [i for i, (x, y) in enumerate(zip(before[0], after[0])) if x != y][0]
            V('self-noop', 'atoms', 'identity replacement changed atom %d: %r -> %r' % (j, before[0][j], after[0][j]))
        elif after[1] != before[1]:
            kdiff = [kk for kk in KINDS if after[1][kk] != before[1][kk]][0]
            V('self-noop', 'terms', 'identity replacement changed the set of %s tuples (%d -> %d)' % (kdiff, len(before[1][kdiff]), len(after[1][kdiff])))
        out['outcomes']['real self matches=%d' % nm] = 1; out['nontrivial'] = 1 if nm else 0
    elif mode == 'search':
        B = Atoms(elements=['F' if e == 'H' else e for e in A.elements], positions=np.asarray(A.positions))
        find = MM._orig_find if hasattr(MM, '_orig_find') else find_pattern_in_structure
        (f0, err), _ = ex.run(lambda: call(find, s, A, atol=atol), ())
        if err:
            V('no-result', 'exc:' + exc_sig(err), 'search raised %r' % (err[0],)); return
        (res, err), _ = ex.run(lambda: call(replace_pattern_in_structure, s, A, B, atol=atol, return_num_matches=True), ())
        if err:
            V('no-result', 'exc:' + exc_sig(err), 'raised %r' % (err[0],)); return
        (f1, err), _ = ex.run(lambda: call(find, res[0], A, atol=atol), ())
        out['evals'] += 3; out['compared'] += 1
        if err:
            V('no-result', 'exc:' + exc_sig(err), 'second search raised %r' % (err[0],)); return
        if len(f1):
            V('nothing-left', 'found-again', 'the search at atol %.2g finds %d occurrences before the replacement, the replacement (same atol) reports %r, and a second search still finds %d' % (atol, len(f0), res[1], len(f1)))
        out['outcomes']['real search matches=%d left=%d' % (len(f0), len(f1))] = 1; out['nontrivial'] = 1 if len(f0) else 0
    else:
        (res, err), _ = ex.run(lambda: call(replace_pattern_in_structure, s, A, B, atol=atol, return_num_matches=True), ())
        if err:
            V('no-result', 'exc:' + exc_sig(err), 'raised %r' % (err[0],)); return
        (res2, err), _ = ex.run(lambda: call(replace_pattern_in_structure, res[0], B, A, atol=atol, return_num_matches=True), ())
        out['evals'] += 2; out['compared'] += 1
        if err:
            V('no-result', 'exc:' + exc_sig(err), 'raised %r' % (err[0],)); return
        if res[1] != res2[1] or res[1] == 0:
            V('reversible', 'counts', 'Zr->Hf replaced %d, Hf->Zr %d' % (res[1], res2[1]))
        d = match_multiset([(e, p) for e, p, _, _ in before[0]], [(e, p) for e, p, _, _ in atom_seq(res2[0])], np.asarray(s.cell), 1e-6)
        if d:
            V('reversible', 'multiset', 'Zr->Hf->Zr does not restore the structure: %s' % d)
        (f, err), _ = ex.run(lambda: call(find_pattern_in_structure, res[0], A, atol=atol), ())
        if not err and len(f):
            V('nothing-left', 'found-again', 'Zr still found after replacing all Zr by Hf')
        out['outcomes']['real aba matches=%d' % res[1]] = 1; out['nontrivial'] = 1
    if sc['i'] == 0:
        out['samples'] = [dict(real=name, mode=mode)]


def run_large(sc, ctx, out):
    """more than 2^15 atoms (G.large_case): identity replacement; C-O-H -> C-O-S -> C-O-H (the atoms put in by the first step are stored last)"""
    cell, pos, el, pp, pel, planted = G.large_case(sc['order'])
    s = Atoms(elements=el, positions=pos, cell=cell, charges=[1e-4 * (i % 1000) for i in range(len(el))], groups=[i % 5 for i in range(len(el))])
    A = pattern_atoms(pel, pp); B = pattern_atoms(pel[:-1] + ['S'], pp)
    ex = explorer(ctx)
    V = lambda clause, sig, msg: out['violations'].append(viol(clause, sig, 'structure of %d atoms with 5 copies of C-O-H (atom order %d): %s' % (len(el), sc['order'], msg), sc))
    if sc['variant'] == 'self':
        (res, err), _ = ex.run(lambda: call(replace_pattern_in_structure, s, A, A.copy(), return_num_matches=True), ())
        out['evals'] += 1; out['compared'] += 1
        if err:
            V('no-result', 'large-exc:' + exc_sig(err), 'raised %r' % (err[0],)); return
        r, nm = res
        if nm != 5:
            V('self-noop', 'large-count', 'identity replacement reports %r matches' % (nm,))
        if len(r.atom_types) != len(el) or list(r.elements) != list(el) or not np.array_equal(np.asarray(r.positions), np.asarray(s.positions)) or not np.array_equal(np.asarray(r.charges), np.asarray(s.charges)) or not np.array_equal(np.asarray(r.groups), np.asarray(s.groups)):
            V('self-noop', 'large-atoms', 'identity replacement changed the atoms (%d -> %d atoms)' % (len(el), len(r.atom_types)))
    else:
        (r1, err), _ = ex.run(lambda: call(replace_pattern_in_structure, s, A, B, return_num_matches=True), ())
        if err:
            V('no-result', 'large-exc:' + exc_sig(err), 'A->B raised %r' % (err[0],)); return
        (r2, err), _ = ex.run(lambda: call(replace_pattern_in_structure, r1[0], B, A, return_num_matches=True), ())
        out['evals'] += 2; out['compared'] += 1
        if err:
            V('no-result', 'large-exc:' + exc_sig(err), 'B->A raised %r' % (err[0],)); return
        if r1[1] != 5 or r2[1] != 5:
            V('reversible', 'large-counts', 'A->B replaced %r matches, B->A %r; there are 5 occurrences' % (r1[1], r2[1]))
        r = r2[0]
        he0 = np.asarray(s.positions)[[i for i, e in enumerate(el) if e == 'He']]; he1 = np.asarray(r.positions)[[i for i, e in enumerate(r.elements) if e == 'He']]
        if he0.shape != he1.shape or not np.array_equal(he0, he1):
            V('reversible', 'large-bystanders', 'the He atoms changed')
        o = [(e, tuple(p)) for e, p in zip(el, np.asarray(s.positions)) if e != 'He']; f = [(str(e), tuple(p)) for e, p in zip(r.elements, np.asarray(r.positions)) if e != 'He']
        d = match_multiset(o, f, cell, 1e-6)
        if d:
            V('reversible', 'large-multiset', 'A->B->A does not restore the structure: %s' % d)
    out['outcomes']['large %s' % sc['variant']] = 1; out['nontrivial'] = 1


def run_aba_replica(sc, ctx, out):
    """A->B in the unit cell, replicate the result 2x1x1, B->A in the supercell: the supercell of the original comes back (mod lattice)"""
    sc2 = dict(cell=sc['cell'], pat=sc['pat'], subpose=4, place=P(0.97, 0.03, 0.97), pair=0, ncopies=1, atol=0.05, noise=0)
    c = build_case(sc2, ctx); s = c['s']; pel, pp = c['pel'], c['pp']; cell = c['cell']
    A = pattern_atoms(pel, pp); B = pattern_atoms(list(pel[:-1]) + ['S'], pp)
    ex = explorer(ctx)
    V = lambda clause, sig, msg: out['violations'].append(viol(clause, sig, '%s [%s, %s]' % (msg, sc['pat'], G.CELLS[sc['cell']][0]), sc))
    (r1, err), _ = ex.run(lambda: call(replace_pattern_in_structure, s, A, B, return_num_matches=True), ())
    if err:
        V('no-result', 'exc:' + exc_sig(err), 'A->B raised %r' % (err[0],)); return
    sup = r1[0].replicate((2, 1, 1))
    (r2, err), _ = ex.run(lambda: call(replace_pattern_in_structure, sup, B, A, return_num_matches=True), ())
    out['evals'] += 2; out['compared'] += 1
    if err:
        V('no-result', 'exc:' + exc_sig(err), 'B->A in the replicated result raised %r' % (err[0],)); return
    want = s.replicate((2, 1, 1))
    if r2[1] != 2 * r1[1]:
        V('reversible', 'replica-counts', 'A->B replaced %r matches in the unit cell, B->A %r in its 2x1x1 replica' % (r1[1], r2[1]))
    d = match_multiset([(str(e), tuple(p)) for e, p in zip(want.elements, np.asarray(want.positions))], [(str(e), tuple(p)) for e, p in zip(r2[0].elements, np.asarray(r2[0].positions))], np.asarray(want.cell, float), 1e-6)
    if d:
        V('reversible', 'replica-multiset', 'A->B, replicate 2x1x1, B->A does not give the 2x1x1 replica of the original: %s' % d)
    (f, err), _ = ex.run(lambda: call(find_pattern_in_structure, r2[0], A), ())
    if not err and len(f) != 2 * r1[1]:
        V('reversible', 'replica-search', 'after the round trip through the replica a search for A finds %d occurrences, expected %d' % (len(f), 2 * r1[1]))
    out['outcomes']['aba through a replica'] = 1; out['nontrivial'] = 1


def run(sc, ctx):
    out = dict(evals=0, compared=0, violations=[], outcomes={}, hashes={h64(sc)}, nontrivial=0)
    if sc['kind'] == 'rhistory':
        judge_replace_history(run_replace_history(sc, ctx), sc, out, 'reversible')
    elif sc['kind'] == 'aba-replica':
        run_aba_replica(sc, ctx, out)
    elif sc['kind'] == 'large':
        run_large(sc, ctx, out)
    elif sc['kind'] == 'gen':
        run_gen(sc, ctx, out)
    else:
        run_real(sc, ctx, out)
    return out
