"""C10 - deleting atoms removes exactly them and the terms that touch them.

E1, exhaustive: structures n=1..N atoms x {tables, no tables} x {extra columns, none} x {duplicate
term, none} x every non-empty index subset x every ordering of the index list (|S|<=3; sorted,
reversed, rotated otherwise) x {list, tuple, ndarray}; plus pop() / pop(-1) / pop(i) for every i.
Oracle: RefStructure.delete (survivors keep all data and relative order; a term survives iff none of
its atoms was deleted, same uids, coefficient text and extra fields, original relative order).
"""
import itertools
import numpy as np
from mc.checks.common import *

ENGINE = 'E1 product'


KSUB = [['angle'], ['dihedral'], ['improper'], ['bond', 'improper'], ['angle', 'dihedral'], ['bond', 'dihedral', 'improper']]


def variants():
    """(tables, extra columns, duplicate term, term kinds present)"""
    return [(tables, xf, dup, KINDS) for tables in (True, False) for xf in (False, True) for dup in (False, True)] + \
           [(tables, False, False, ks) for tables in (True, False) for ks in KSUB]


def plan(tier, seed):
    N = 6 if tier == 'quick' else 7
    scs = []
    for n in range(1, N + 1):
        for vi, _ in enumerate(variants()):
            for S in ordered_subsets(n):
                scs.append(dict(n=n, v=vi, S=list(S)))
            scs.append(dict(n=n, v=vi, pop=True))
    return dict(scenarios=scs, exhaustive=True, chunk=40,
                menus=dict(n_atoms=list(range(1, N + 1)), variants=['tables=%s extra=%s dup=%s kinds=%s' % v for v in variants()],
                           containers=['list', 'tuple', 'ndarray'], orderings='all permutations for |S|<=3, else sorted/reversed/rotated',
                           pop=['pop()', 'pop(i) for every i in -n..n-1']),
                bounds=dict(max_atoms=N),
                rule='one scenario per (structure, index subset); every listing order x container inside; non-trivial = the deletion removes at least one term and keeps at least one atom',
                assumptions=['structures are chains of <= %d atoms with bonds, angles, dihedrals, one improper' % N,
                             'reference model mc/ref/structure.py'])


def orders(S):
    S = tuple(S)
    if len(S) <= 3:
        return sorted(set(itertools.permutations(S)))
    return sorted({S, S[::-1], S[1:] + S[:1]})


CONV = dict(list=list, tuple=tuple, ndarray=lambda o: np.array(o, dtype=int))


def check_after(a, ref, sc, what, out):
    try:
        d = compare_views(view(a), ref.view())
    except Inconsistent as e:
        d = 'inconsistent object (%s): %s' % (e.clause, e)
    if d:
        out['violations'].append(viol('delete-exact', what.split('(')[0].split(' ')[0], '%s on %s: %s' % (what, sc, d), sc, op=what, after=describe(a)))
        return False
    return True


def run(sc, ctx):
    tables, xf, dup, kinds = variants()[sc['v']]
    base = mk(sc['n'], tables=tables, xf=xf, dup=dup, kinds=kinds)
    out = dict(evals=0, compared=0, violations=[], outcomes={}, hashes=set(), nontrivial=0)
    if sc.get('pop'):
        n = sc['n']
        for arg in [None] + list(range(-n, n)):
            a = base.copy(); ref = RefStructure.of(base)
            what = 'pop()' if arg is None else 'pop(%d)' % arg
            _, err = call(a.pop) if arg is None else call(a.pop, arg)
            out['evals'] += 1; out['compared'] += 1
            ref.delete([n - 1 if arg is None else arg % n])
            out['hashes'].add(h64(('pop', sc['n'], sc['v'], arg)))
            if err:
                out['violations'].append(viol('delete-exact', 'pop-exc:' + exc_sig(err), '%s raised %r' % (what, err[0]), sc, tb=err[1]))
            else:
                ok = check_after(a, ref, sc, what, out)
                out['outcomes']['pop ok' if ok else 'pop bad'] = out['outcomes'].get('pop ok' if ok else 'pop bad', 0) + 1
            out['nontrivial'] += 1
        return out
    S = sc['S']
    ref0 = RefStructure.of(base)
    nterms0 = sum(len(v) for v in ref0.terms.values())
    for order in orders(S):
        for cname, conv in CONV.items():
            a = base.copy(); ref = ref0.copy()
            _, err = call(a.__delitem__, conv(order))
            out['evals'] += 1; out['compared'] += 1
            ref.delete(S)
            out['hashes'].add(h64((sc['n'], sc['v'], order, cname)))
            what = 'del atoms[%s(%s)]' % (cname, list(order))
            if err:
                out['violations'].append(viol('delete-exact', 'del-exc:' + exc_sig(err), '%s raised %r' % (what, err[0]), sc, tb=err[1]))
                continue
            check_after(a, ref, sc, what, out)
            removed = nterms0 - sum(len(v) for v in ref.terms.values())
            key = 'atoms-%d terms-%d' % (len(S), removed)
            out['outcomes'][key] = out['outcomes'].get(key, 0) + 1
            if removed and len(ref):
                out['nontrivial'] += 1
    if S == [0] and sc['n'] >= 4 and sc['v'] == 0:
        out['samples'] = [dict(structure=describe(base), delete=S, orders=[list(o) for o in orders(S)])]
    return out
