"""C10 - deleting atoms removes exactly them and the terms that touch them.

E1, exhaustive: structures n=1..N atoms x {tables, no tables} x {extra columns, none} x {duplicate
term, none} x every non-empty index subset x every ordering of the index list (|S|<=3; sorted,
reversed, rotated otherwise) x {list, tuple, ndarray}; plus pop() / pop(-1) / pop(i) for every i.
Oracle: RefStructure.delete (survivors keep all data and relative order; a term survives iff none of
its atoms was deleted, same uids, coefficient text and extra fields, original relative order).
"""
import itertools
import numpy as np
from mc.checks.common import *

ENGINE = 'E1 product'


KSUB = [['angle'], ['dihedral'], ['improper'], ['bond', 'improper'], ['angle', 'dihedral'], ['bond', 'dihedral', 'improper']]


def variants():
    """(tables, extra columns, duplicate term, term kinds present)"""
    return [(tables, xf, dup, KINDS) for tables in (True, False) for xf in (False, True) for dup in (False, True)] + \
           [(tables, False, False, ks) for tables in (True, False) for ks in KSUB]


def plan(tier, seed):
    N = 6 if tier == 'quick' else 7
    scs = []
    for n in range(1, N + 1):
        for vi, _ in enumerate(variants()):
            for S in ordered_subsets(n):
                scs.append(dict(n=n, v=vi, S=list(S)))
            scs.append(dict(n=n, v=vi, pop=True))
    for big in (60, 400):
        for di in range(len(big_deletions(big))):
            scs.append(dict(big=big, d=di))
    for n in (4, 5, 6):
        for vi in (0, 1, 3):
            scs.append(dict(n=n, v=vi, twice=True))
    scs += [dict(shared=i) for i in range(4)]
    for n in (5000, 9000):
        for di in range(len(chain_deletions(n))):
            scs.append(dict(chain=n, d=di))
    return dict(scenarios=scs, exhaustive=True, chunk=40,
                menus=dict(n_atoms=list(range(1, N + 1)), variants=['tables=%s extra=%s dup=%s kinds=%s' % v for v in variants()],
                           containers=['list', 'tuple', 'ndarray'], orderings='all permutations for |S|<=3, else sorted/reversed/rotated',
                           pop=['pop()', 'pop(i) for every i in -n..n-1']),
                bounds=dict(max_atoms=N, large_structures=[60, 400], fully_bonded_chains=[5000, 9000]),
                rule='one scenario per (structure, index subset); every listing order x container inside; non-trivial = the deletion removes at least one term and keeps at least one atom',
                assumptions=['structures are chains of <= %d atoms with bonds, angles, dihedrals, one improper' % N,
                             'reference model mc/ref/structure.py'])


def big_structure(n):
    """many atoms, few terms: a bonded chain with all term kinds on atoms 0..5, plus isolated terms far up the index range"""
    pos = [(1.0 + 0.9 * (i % 20), 1.0 + 0.9 * ((i // 20) % 20), 1.0 + 0.9 * (i // 400)) for i in range(n)]
    bonds = [(i, i + 1) for i in range(5)] + [(2, 0), (n - 3, n - 2), (n - 2, n - 1), (n // 2, 1)]
    angles = [(0, 1, 2), (1, 2, 3), (3, 4, 5), (n - 3, n - 2, n - 1)]
    dih = [(0, 1, 2, 3), (2, 3, 4, 5), (n - 1, n // 2, 1, 0)]
    imp = [(1, 0, 2, 3)]
    return Atoms(atom_types=[i % 3 for i in range(n)], atom_type_elements=['C', 'N', 'O'], atom_type_labels=['Ca', 'Na', 'Oa'], atom_type_masses=[12.0, 14.0, 16.0], positions=pos,
                 charges=[0.001 * i for i in range(n)], groups=[i % 5 for i in range(n)], cell=30 * np.identity(3),
                 bonds=bonds, bond_types=[i % 2 for i in range(len(bonds))], angles=angles, angle_types=[0, 1, 0, 1], dihedrals=dih, dihedral_types=[0, 0, 1], impropers=imp, improper_types=[0],
                 bond_type_coeffs=['b0 1', 'b1 2'], angle_type_coeffs=['a0 1', 'a1 2'], dihedral_type_coeffs=['d0 1', 'd1 2'], improper_type_coeffs=['i0 1'])


def chain_structure(n):
    """fully bonded chain: n-1 bonds, n-2 angles, n-3 dihedrals (thousands of rows per term kind)"""
    pos = [(1.0 + 0.9 * (i % 30), 1.0 + 0.9 * ((i // 30) % 30), 1.0 + 0.9 * (i // 900)) for i in range(n)]
    return Atoms(atom_types=[i % 3 for i in range(n)], atom_type_elements=['C', 'N', 'O'], atom_type_labels=['Ca', 'Na', 'Oa'], atom_type_masses=[12.0, 14.0, 16.0], positions=pos,
                 charges=[0.0001 * (i % 977) for i in range(n)], groups=[i % 5 for i in range(n)], cell=40 * np.identity(3),
                 bonds=[(i, i + 1) for i in range(n - 1)], bond_types=[i % 2 for i in range(n - 1)], angles=[(i, i + 1, i + 2) for i in range(n - 2)], angle_types=[i % 2 for i in range(n - 2)],
                 dihedrals=[(i, i + 1, i + 2, i + 3) for i in range(n - 3)], dihedral_types=[0] * (n - 3),
                 bond_type_coeffs=['b0 1', 'b1 2'], angle_type_coeffs=['a0 1', 'a1 2'], dihedral_type_coeffs=['d0 1'])


def chain_deletions(n):
    out = [[i] for i in (0, 4094, 4095, 4096, 4097, 8190, 8191, 8192, 8193, n - 1) if i < n]
    out += [list(range(0, 300)), list(range(n - 257, n)), list(range(100, n, 511)), list(range(3000, 3256)) + [4096], list(range(1, 600, 2))]
    return out


def big_deletions(n):
    out = [list(range(n // 10, n - 10, max(1, n // 20))), list(range(0, n, 2)), list(range(n - 20, n)), [0, 3] + list(range(7, n - 5, max(1, n // 17))), list(range(6, n - 3)),
           [n - 1], list(range(1, n, 3))[::-1], list(range(n // 3, n // 3 + 25)) + [n - 2]]
    return [sorted(set(x)) for x in out]


def orders(S):
    S = tuple(S)
    if len(S) <= 3:
        return sorted(set(itertools.permutations(S)))
    return sorted({S, S[::-1], S[1:] + S[:1]})


CONV = dict(list=list, tuple=tuple, ndarray=lambda o: np.array(o, dtype=int))


def check_after(a, ref, sc, what, out):
    try:
        d = compare_views(view(a), ref.view())
    except Inconsistent as e:
        d = 'inconsistent object (%s): %s' % (e.clause, e)
    if d:
        out['violations'].append(viol('delete-exact', what.split('(')[0].split(' ')[0], '%s on %s: %s' % (what, sc, d), sc, op=what, after=describe(a)))
        return False
    return True


def run(sc, ctx):
    if 'big' in sc or 'chain' in sc:
        out = dict(evals=0, compared=0, violations=[], outcomes={}, hashes=set(), nontrivial=0)
        if 'chain' in sc:
            sc = dict(sc, big=sc['chain']); base = chain_structure(sc['chain']); S = chain_deletions(sc['chain'])[sc['d']]
        else:
            base = big_structure(sc['big']); S = big_deletions(sc['big'])[sc['d']]
        ref0 = RefStructure.of(base)
        for order in ((S, S[::-1]) if len(S) > 1 else (S,)):
            for cname, conv in (CONV.items() if 'chain' not in sc else [('list', list)]):
                a = base.copy(); ref = ref0.copy()
                _, err = call(a.__delitem__, conv(order)); ref.delete(S)
                out['evals'] += 1; out['compared'] += 1; out['hashes'].add(h64(('big', sc['big'], sc['d'], order[0], cname)))
                what = 'del atoms[%s of %d indices %s] on %d atoms%s' % (cname, len(S), (S[:3] + ['...'] if len(S) > 3 else S), sc['big'], ' (fully bonded chain)' if 'chain' in sc else '')
                if err:
                    out['violations'].append(viol('delete-exact', 'del-exc:' + exc_sig(err), '%s raised %r' % (what, err[0]), sc, tb=err[1])); continue
                check_after(a, ref, sc, what, out)
        out['outcomes']['large structure'] = 1; out['nontrivial'] = 1
        return out
    out = dict(evals=0, compared=0, violations=[], outcomes={}, hashes=set(), nontrivial=0)
    if 'shared' in sc:
        # two objects (or two attributes of one object) that were given the same term array by attribute assignment, as user code
        # and the repository's own tests do: deleting in one must leave the other as it was
        i = sc['shared']
        from mc.checks.C06 import with_filler
        a = with_filler(mk(6, True), 1, False, False); b = with_filler(mk(6, True, tag='uv'), 1, False, False)          # atom 0 is a free He atom: deleting it removes no term row
        if i == 0:
            b.bonds = a.bonds
        elif i == 1:
            b.angles = a.angles; b.dihedrals = a.dihedrals
        elif i == 2:
            a.impropers = a.dihedrals; a.improper_types = a.dihedral_types; a.improper_type_coeffs = a.dihedral_type_coeffs; a.extra_improper_fields = a.extra_dihedral_fields.copy()
        else:
            b.bonds = a.bonds; b.bond_types = a.bond_types
        refa = RefStructure.of(a); refb = RefStructure.of(b); sb = raw_state(b)
        _, err = call(a.__delitem__, [0]); refa.delete([0])
        out['evals'] += 1; out['compared'] += 2; out['hashes'].add(h64(('shared', i)))
        if err:
            out['violations'].append(viol('delete-exact', 'shared-exc:' + exc_sig(err), 'del atoms[[0]] raised %r' % (err[0],), sc)); return out
        check_after(a, refa, sc, 'del atoms[[0]] (a free ion; a term array of this object is shared with another attribute / object)', out)
        if i != 2 and raw_state(b) != sb:
            d = [j for j, (x, y) in enumerate(zip(sb, raw_state(b))) if x != y]
            out['violations'].append(viol('delete-exact', 'shared-array', 'deleting atom 0 (a free ion, in no term) of one structure changed another structure that had been given the same term array (raw-state fields %r)' % (d,), sc))
        elif i != 2:
            _, err = call(b.__delitem__, [0]); refb.delete([0])
            if err:
                out['violations'].append(viol('delete-exact', 'shared-exc:' + exc_sig(err), 'del on the second structure raised %r' % (err[0],), sc)); return out
            check_after(b, refb, sc, 'del atoms[[0]] on the second structure (which had been given the first one\'s term array)', out)
        out['outcomes']['shared term array'] = 1; out['nontrivial'] += 1
        return out
    tables, xf, dup, kinds = variants()[sc['v']]
    base = mk(sc['n'], tables=tables, xf=xf, dup=dup, kinds=kinds)
    if sc.get('twice'):
        # every ordered pair of deletions (first <= 2 atoms, second <= 2 of the survivors) and pop sequences on ONE object, and on a copy() taken in between
        n = sc['n']
        firsts = [list(S) for S in ordered_subsets(n) if len(S) <= 2]
        for S1 in firsts:
            n1 = n - len(S1)
            for S2 in [list(S) for S in ordered_subsets(n1) if len(S) <= 2][:12] + [[n1 - 1], [0, n1 - 1]]:
                if not S2 or max(S2) >= n1 or len(set(S2)) != len(S2):
                    continue
                for via_copy in (0, 1):
                    a = base.copy() if False else mk(sc['n'], tables=tables, xf=xf, dup=dup, kinds=kinds); ref = RefStructure.of(a)
                    _, err = call(a.__delitem__, list(S1)); ref.delete(S1)
                    if err:
                        continue           # single deletions are judged above
                    if via_copy:
                        a = a.copy()
                    _, err = call(a.__delitem__, list(S2)); ref.delete(S2)
                    out['evals'] += 2; out['compared'] += 1; out['hashes'].add(h64(('twice', n, sc['v'], tuple(S1), tuple(S2), via_copy)))
                    what = 'del atoms[%s] then%s del atoms[%s]' % (S1, ' copy() and' if via_copy else '', S2)
                    if err:
                        out['violations'].append(viol('delete-exact', 'twice-exc:' + exc_sig(err), '%s: the second deletion raised %r' % (what, err[0]), sc)); continue
                    check_after(a, ref, sc, what, out)
                    out['nontrivial'] += 1
        for seq in ([None, None], [0, 0], [1, None], [None, 0], [2, 0], [-2, 1]):
            a = mk(sc['n'], tables=tables, xf=xf, dup=dup, kinds=kinds); ref = RefStructure.of(a); m = sc['n']; ok = True
            for arg in seq:
                _, err = call(a.pop) if arg is None else call(a.pop, arg)
                ref.delete([m - 1 if arg is None else arg % m]); m -= 1
                if err:
                    out['violations'].append(viol('delete-exact', 'twice-exc:' + exc_sig(err), 'pop sequence %r raised %r' % (seq, err[0]), sc)); ok = False; break
            out['evals'] += 2; out['compared'] += 1
            if ok:
                check_after(a, ref, sc, 'pop sequence %r' % (seq,), out)
        out['outcomes']['two deletions on one object'] = 1
        return out
    if sc.get('pop'):
        n = sc['n']
        for arg in [None] + list(range(-n, n)):
            a = base.copy(); ref = RefStructure.of(base)
            what = 'pop()' if arg is None else 'pop(%d)' % arg
            _, err = call(a.pop) if arg is None else call(a.pop, arg)
            out['evals'] += 1; out['compared'] += 1
            ref.delete([n - 1 if arg is None else arg % n])
            out['hashes'].add(h64(('pop', sc['n'], sc['v'], arg)))
            if err:
                out['violations'].append(viol('delete-exact', 'pop-exc:' + exc_sig(err), '%s raised %r' % (what, err[0]), sc, tb=err[1]))
            else:
                ok = check_after(a, ref, sc, what, out)
                out['outcomes']['pop ok' if ok else 'pop bad'] = out['outcomes'].get('pop ok' if ok else 'pop bad', 0) + 1
            out['nontrivial'] += 1
        return out
    S = sc['S']
    ref0 = RefStructure.of(base)
    nterms0 = sum(len(v) for v in ref0.terms.values())
    for order in orders(S):
        for cname, conv in CONV.items():
            a = base.copy(); ref = ref0.copy()
            _, err = call(a.__delitem__, conv(order))
            out['evals'] += 1; out['compared'] += 1
            ref.delete(S)
            out['hashes'].add(h64((sc['n'], sc['v'], order, cname)))
            what = 'del atoms[%s(%s)]' % (cname, list(order))
            if err:
                out['violations'].append(viol('delete-exact', 'del-exc:' + exc_sig(err), '%s raised %r' % (what, err[0]), sc, tb=err[1]))
                continue
            check_after(a, ref, sc, what, out)
            removed = nterms0 - sum(len(v) for v in ref.terms.values())
            key = 'atoms-%d terms-%d' % (len(S), removed)
            out['outcomes'][key] = out['outcomes'].get(key, 0) + 1
            if removed and len(ref):
                out['nontrivial'] += 1
    if S == [0] and sc['n'] >= 4 and sc['v'] == 0:
        out['samples'] = [dict(structure=describe(base), delete=S, orders=[list(o) for o in orders(S)])]
    return out
