"""C07 - overlapping replacements are refused, never silently corrupted.

E1, exhaustive over the small space: structures in which occurrences share atoms in every
combination (chains C-N-C, C-N-C-N-C, C-C-C, C-C-C-C, star N(C)3, a control without sharing, and
placements where the shared atom is reached through a cell face / corner) x search patterns x
replacement patterns (shared atom retained by both / removed by one / removed by both; empty, same
size, larger) x replace_all x ignore flag x fraction {1/2, 1}; E2 over every sample and tie-break answer.
Oracle from the recorded matches: if some structure atom is in the deletion set of two selected
matches, the replacement is non-empty and the flag is off -> AtomsShouldNotBeDeletedTwice and no
result; otherwise no such error and N_out = N_in - |union of deletion sets| + inserted.
"""
import itertools
import numpy as np
from mc.checks.replacelib import *
from mofun.mofun import AtomsShouldNotBeDeletedTwice

ENGINE = 'E1+E2'
D = 1.3
S3 = 3 ** 0.5
STRUCTS = [  # (name, elements, coordinates relative to an anchor)
    ('C-N-C', ['C', 'N', 'C'], [(0, 0, 0), (D, 0, 0), (2 * D, 0, 0)]),
    ('C-N-C-N-C', ['C', 'N', 'C', 'N', 'C'], [(i * D, 0, 0) for i in range(5)]),
    ('C-C-C', ['C', 'C', 'C'], [(i * D, 0, 0) for i in range(3)]),
    ('C-C-C-C', ['C', 'C', 'C', 'C'], [(i * D, 0, 0) for i in range(4)]),
    ('star N(C)3', ['N', 'C', 'C', 'C'], [(0, 0, 0), (D, 0, 0), (-D / 2, D * S3 / 2, 0), (-D / 2, -D * S3 / 2, 0)]),
    ('control C-N  N-C (no sharing)', ['C', 'N', 'N', 'C'], [(0, 0, 0), (D, 0, 0), (D + 3.1, 0.4, 0), (2 * D + 3.1, 0.4, 0)]),
]
SEARCH = [  # (name, elements, coords)
    ('CN', ['C', 'N'], [(0, 0, 0), (D, 0, 0)]),
    ('CC', ['C', 'C'], [(0, 0, 0), (D, 0, 0)]),
    ('CNC', ['C', 'N', 'C'], [(0, 0, 0), (D, 0, 0), (2 * D, 0, 0)]),
]


def replacements(sel, spos):
    spos = np.array(spos, float); k = len(sel)
    out = [('empty', [], np.zeros((0, 3))),
           ('last retained, rest changed', ['Xe'] * (k - 1) + [sel[-1]], spos.copy()),
           ('first retained, rest changed', [sel[0]] + ['Xe'] * (k - 1), spos.copy()),
           ('all changed', ['Xe'] * k, spos.copy()),
           ('all retained + one inserted', list(sel) + ['F'], np.vstack([spos, spos[0] + [0.2, 1.0, 0.3]])),
           ('identical', list(sel), spos.copy()),
           ('smaller: first atom only', [sel[0]], spos[:1].copy()),
           ('last retained, listed first', [sel[-1]] + ['Xe'] * (k - 1), np.vstack([spos[-1:], spos[:-1]])),
           ('identical, listed in reverse', list(sel)[::-1], spos[::-1].copy()),
           ('last atom displaced by 0.04 A (same element, not the same atom), rest retained', list(sel), np.vstack([spos[:-1], spos[-1:] + [0.0, 0.04, 0.0]]))]
    return out


PLACES = [('interior', (0.3, 0.5, 0.5)), ('across the x face', (0.93, 0.5, 0.5)), ('across a corner', (0.95, 0.97, 0.96))]
CELLSEL = [0, 2, 4]


def plan(tier, seed):
    scs = []
    for ci in ([2, 0] if tier == 'quick' else CELLSEL):
        for si in range(len(STRUCTS)):
            for qi in range(len(SEARCH)):
                if not set(SEARCH[qi][1]) <= set(STRUCTS[si][1]):
                    continue
                for ri in range(10):
                    for pl in range(len(PLACES)):
                        for ra in (0, 1):
                            for ig in (0, 1):
                                for f in (1.0, 0.5):
                                    for pose in ((4,) if tier == 'quick' and ci == 0 else (0, 4) if tier == 'quick' else (0, 1, 4, 5)):
                                        scs.append(dict(cell=ci, s=si, q=qi, r=ri, place=pl, replace_all=ra, ignore=ig, fraction=f, pose=pose))
    scs += [dict(many=n, ignore=ig, r=r) for n in (6, 7) for ig in (0, 1) for r in (0, 1)]
    scs += [dict(large=v, ignore=ig) for v in (0, 1) for ig in (0, 1)]
    scs += [dict(rhistory=hi, base=[si, ri], ignore=ig) for si in (0, 4) for ri in (1, 2, 4, 9) for ig in (0, 1) for hi in range(len(REPLACE_HISTORIES))]
    return dict(scenarios=scs, exhaustive=True, chunk=40,
                menus=dict(cells=[G.CELLS[i][0] for i in CELLSEL], structures=[s[0] for s in STRUCTS], search=[s[0] for s in SEARCH], replacements=[r[0] for r in replacements(['C', 'N'], SEARCH[0][2])],
                           placements=[p[0] for p in PLACES], replace_all=[0, 1], ignore_flag=[0, 1], fractions=[1.0, 0.5], draws='every sample subset and tie-break answer (unbounded: the trees are small)'),
                bounds=dict(draw_deviation_bound='none (full tree, cap 400)'),
                rule='one scenario per tuple, every draw answer inside; non-trivial = two selected matches share a structure atom',
                assumptions=['deletion sets are computed from the matches the call actually used (recorded at the find seam)'])


def history_case(sc, ctx):
    """structure whose C-N occurrences share the N atom (chain / star), search C-N, replacement variant ri; 'other' replacements for the histories"""
    si, ri = sc['base']; cell = G.CELLS[2][1]
    sname, sel_, scoord = STRUCTS[si]
    pos = wrap((sub_poses(ctx['seed'])[4] @ np.array(scoord, float).T).T + np.array(PLACES[1][1]) @ cell, cell)
    by = wrap(np.array([[0.3, 0.1, 0.12], [0.6, 0.85, 0.2]]) @ cell, cell)
    s = Atoms(elements=list(sel_) + ['Kr', 'Ar'], positions=np.vstack([pos, by]), cell=cell.copy(), charges=[0.1 * (i + 1) for i in range(len(sel_) + 2)])
    qname, qel, qpos = SEARCH[0]
    reps = replacements(qel, qpos)
    other = {'all elements changed': 3, 'identical': 5, 'one element changed': 2, GROWN: 4}
    return dict(s=s, sp=pattern_atoms(qel, qpos), rp=pattern_atoms(reps[ri][1], reps[ri][2]), pel=list(qel), pp=np.array(qpos, float),
                other=lambda which: pattern_atoms(reps[other[which]][1], reps[other[which]][2], q0=0.9, g0=70))


def run(sc, ctx):
    out = dict(evals=0, compared=0, violations=[], outcomes={}, hashes={h64(sc)}, nontrivial=0)
    if 'rhistory' in sc:
        # refusal / acceptance after a history must be that of fresh objects with the same content
        judge_replace_history(run_replace_history(sc, ctx, build=history_case, extra_kw=dict(ignore_atoms_should_not_be_deleted_twice=bool(sc['ignore']))), sc, out, 'refusal'); return out
    if 'many' in sc:
        # n^3 isolated H atoms (216 / 343): hundreds of matches, none overlapping; H -> F or H -> nothing
        n = sc['many']; L = 3.0 * n; g = np.arange(n) * 3.0 + 1.0
        pos = np.array(np.meshgrid(g, g, g)).T.reshape(-1, 3)
        s = Atoms(elements=['H'] * len(pos), positions=pos, cell=np.diag([L, L, L]))
        sp = Atoms(elements=['H'], positions=[(0.5, 0.5, 0.5)]); rp = Atoms(elements=['F'], positions=[(0.5, 0.5, 0.5)]) if sc['r'] == 0 else Atoms()
        (res, err), _ = explorer(ctx).run(lambda: call(replace_pattern_in_structure, s, sp, rp, ignore_atoms_should_not_be_deleted_twice=bool(sc['ignore']), return_num_matches=True), ())
        out['evals'] = 1; out['compared'] = 1
        if err:
            out['violations'].append(viol('no-false-refusal' if isinstance(err[0], AtomsShouldNotBeDeletedTwice) else 'no-result', 'many-matches:' + type(err[0]).__name__,
                                          '%d isolated H atoms, no two matches share an atom, but the replacement raised %r' % (len(pos), err[0]), sc))
        elif res[1] != len(pos) or len(res[0].atom_types) != (len(pos) if sc['r'] == 0 else 0):
            out['violations'].append(viol('at-most-once', 'many-matches:count', '%d isolated H atoms: %r matches reported, %d atoms in the result' % (len(pos), res[1], len(res[0].atom_types)), sc))
        out['outcomes']['many matches'] = 1; out['nontrivial'] = 1
        return out
    if 'large' in sc:
        # 32768 inert He atoms, then a chain C-N-C through the +x face (variant 1: in the interior): the two C-N occurrences share the N atom;
        # the occurrences are known by construction here (the search over > 2^15 atoms is itself under test)
        L = 64.0; cell = np.diag([L, L, L]); g = np.arange(32) * 2.0 + 1.0
        he = np.array(np.meshgrid(g, g, g)).T.reshape(-1, 3)
        x0 = 62.9 if sc['large'] == 0 else 30.1
        chain = wrap(np.array([(x0, 30.0, 30.0), (x0 + D, 30.0, 30.0), (x0 + 2 * D, 30.0, 30.0)]), cell)
        s = Atoms(elements=['He'] * len(he) + ['C', 'N', 'C'], positions=np.vstack([he, chain]), cell=cell)
        sp = pattern_atoms(['C', 'N'], [(0, 0, 0), (D, 0, 0)]); rp = pattern_atoms(['Xe', 'Xe'], [(0, 0, 0), (D, 0, 0)])
        (res, err), _ = explorer(ctx).run(lambda: call(replace_pattern_in_structure, s, sp, rp, ignore_atoms_should_not_be_deleted_twice=bool(sc['ignore']), return_num_matches=True), ())
        out['evals'] = 1; out['compared'] = 1
        where = 'through the +x face' if sc['large'] == 0 else 'in the interior'
        if sc['ignore']:
            if err:
                out['violations'].append(viol('no-result', 'large:' + type(err[0]).__name__, '%d atoms, C-N-C %s, overlap check switched off: raised %r' % (len(he) + 3, where, err[0]), sc))
            elif res[1] != 2:
                out['violations'].append(viol('at-most-once', 'large:count', '%d atoms, C-N-C %s: %r matches reported, there are 2 (C-N and N-C sharing the N atom)' % (len(he) + 3, where, res[1]), sc))
        elif not err:
            out['violations'].append(viol('refusal', 'large:silent-overlap', '%d atoms, C-N-C %s: both C-N occurrences remove the shared N atom, but a structure with %d atoms was returned (%r matches reported)' % (
                len(he) + 3, where, len(res[0].atom_types), res[1]), sc))
        elif not isinstance(err[0], AtomsShouldNotBeDeletedTwice):
            out['violations'].append(viol('no-result', 'large:' + type(err[0]).__name__, '%d atoms, C-N-C %s: raised %r instead of the overlap error' % (len(he) + 3, where, err[0]), sc))
        out['outcomes']['large overlap'] = 1; out['nontrivial'] = 1
        return out
    cell = G.CELLS[sc['cell']][1]
    sname, sel_, scoord = STRUCTS[sc['s']]
    rot = sub_poses(ctx['seed'])[sc['pose']]
    pos = wrap((rot @ np.array(scoord, float).T).T + np.array(PLACES[sc['place']][1]) @ cell, cell)
    by = wrap(np.array([[0.3, 0.1, 0.12], [0.6, 0.85, 0.2]]) @ cell, cell)
    nb = len(sel_)
    s = Atoms(elements=list(sel_) + ['Kr', 'Ar'], positions=np.vstack([pos, by]), cell=cell.copy(), charges=[0.1 * (i + 1) for i in range(len(sel_) + 2)], bonds=[(nb, nb + 1)], bond_types=[0])
    qname, qel, qpos = SEARCH[sc['q']]
    rname, rel, rpos = replacements(qel, qpos)[sc['r']]
    sp = pattern_atoms(qel, qpos); rp = pattern_atoms(rel, rpos)
    ex = explorer(ctx)
    N = len(s.atom_types)

    def fn():
        REC.pop('last', None)
        res, err = call(replace_pattern_in_structure, s, sp, rp, replace_all=bool(sc['replace_all']), replace_fraction=sc['fraction'],
                        ignore_atoms_should_not_be_deleted_twice=bool(sc['ignore']), return_num_matches=True)
        return res, err, REC.get('last')
    sh = {} if sc['replace_all'] else shared_map(qel, np.array(qpos, float), rel, np.array(rpos, float))
    nins = len(rel) - len(sh)
    kinds = set()
    for answers, (res, err, rec) in ex.explore(fn, bound=None, cap=400, observe=lambda r: repr((None if r[0] is None else describe(r[0][0]), r[1] and repr(r[1][0])))):
        out['evals'] += 1; out['compared'] += 1
        V = lambda clause, sig, msg: out['violations'].append(viol(clause, sig, '%s [%s, search %s, replacement "%s", replace_all=%d ignore=%d fraction=%g, draws %r]' % (
            msg, sname, qname, rname, sc['replace_all'], sc['ignore'], sc['fraction'], tuple(answers)), sc, answers=list(answers), structure=describe(s)))
        if rec is None:
            V('no-result', 'no-search', 'no search recorded: %r' % (err and err[0],)); continue
        idxs = [tuple(int(i) for i in t) for t in rec[0]]
        sel = selected_matches(answers, rec, sc['fraction'])
        if sel is None:
            V('no-result', 'sample', 'unexpected sampling'); continue
        dels = []
        for mi in sel:
            m = idxs[mi]
            keep = {m[j] for i, j in sh.items()} if len(rel) else set()
            dels.append(set(m) - keep)
        union = set().union(*dels) if dels else set()
        twice = sum(len(d) for d in dels) > len(union)
        must_raise = twice and len(rel) > 0 and not sc['ignore']
        kinds.add('overlap-refused' if must_raise else ('overlap-allowed' if twice else 'disjoint'))
        if err:
            if isinstance(err[0], AtomsShouldNotBeDeletedTwice):
                if not must_raise:
                    V('no-false-refusal', 'spurious-refusal', 'overlap error raised although no atom would be removed twice (deletion sets %r)' % ([sorted(d) for d in dels],))
            else:
                V('no-result', 'exc:' + exc_sig(err), 'raised %r' % (err[0],))
            continue
        if must_raise:
            V('refusal', 'silent-overlap', 'atoms %r would be removed by two matches (deletion sets %r) but a structure with %d atoms was returned' % (
                sorted(a for a in union if sum(a in d for d in dels) > 1), [sorted(d) for d in dels], len(res[0].atom_types)))
            continue
        nout = len(res[0].atom_types)
        if nout != N - len(union) + nins * len(sel):
            V('at-most-once', 'count', 'result has %d atoms, expected %d - %d + %d (deletion sets %r)' % (nout, N, len(union), nins * len(sel), [sorted(d) for d in dels]))
        try:
            view(res[0])
        except Inconsistent as e:
            V('at-most-once', 'inconsistent', 'result inconsistent: %s' % e)
        else:
            els_out = [str(x) for x in res[0].elements]
            want = [(els_out.index('Kr'), els_out.index('Ar'))] if 'Kr' in els_out and 'Ar' in els_out else None
            got = [tuple(int(x) for x in b) for b in np.asarray(res[0].bonds).reshape(-1, 2)]
            if want is None or got != want:
                V('at-most-once', 'bystander-bond', 'the bond between the two bystander atoms (Kr-Ar, stored after the matched atoms) is %r in the result, expected %r (deletion sets %r)' % (got, want, [sorted(d) for d in dels]))
    out['outcomes'][','.join(sorted(kinds))] = 1
    if 'overlap-refused' in kinds or 'overlap-allowed' in kinds:
        out['nontrivial'] = 1
    if sc['s'] == 1 and sc['q'] == 0 and sc['r'] == 2 and sc['place'] == 1 and not sc['replace_all'] and not sc['ignore'] and sc['fraction'] == 0.5 and sc['cell'] == 2 and sc['pose'] == 0:
        out['samples'] = [dict(structure=describe(s), search=qel, replacement=rname, kinds=sorted(kinds))]
    return out
