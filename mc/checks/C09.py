"""C09 - Atoms objects stay consistent and type ids keep their meaning.

E3: explicit-state search over operation histories.  Initial states: empty Atoms(); typed chain with
full tables; terms without tables; extra (CIF-like) columns; impropers.  Operations: extend with four
fragments and every injective partial identity map (small states; a covering menu otherwise), extend
twice with offsets from one extend_types, delete every non-empty subset (small states; a covering
menu otherwise, always including "everything" and "every atom carrying a bond"), pop, replicate, copy,
subset, replace (three pattern pairs), save_lmpdat -> load_lmpdat.
Invariant in every state: (I1) one row per atom in every per-atom array; (I2) every term refers to
existing atoms, arrays and extra fields have matching shapes; (I3) every type id in use has its
type-level data; (I4) resolved view = reference view; (I5) if N >= 1 the LAMMPS text is internally
consistent under the independent reader, states the reference view, and load_lmpdat reads it back.
"""
import io, itertools, copy as _copy
import numpy as np
from mc.checks.common import *
from mc.checks import replacelib as RLIB
from mc.checks.replacelib import REC, explorer, shared_map
from mc.engine import stategraph as SG
from mc.engine.stategraph import Violation
from mc.ref import lammps as RL
from mofun import replace_pattern_in_structure

ENGINE = 'E3 state graph'
CAP = 8
INITS = ['empty Atoms()', '3-atom typed chain, full tables', '4 atoms, terms but no tables', '3 atoms, extra columns, tables', '4 atoms, bonds + improper, tables', '4 atoms, angles + dihedrals only (no bonds), tables',
         '3-atom typed chain at coordinates beyond 1000 A in a 2500 A cell', '3-atom typed chain at coordinates below -100 A']
FAR_INITS = {6: (2500.0, np.array([1200.5, 1003.25, 999.9999996])), 7: (20.0, np.array([-148.0, -100.0000004, -1234.5]))}      # explored to depth 2
FRAGS = ['single atom', 'bonded pair', '3 atoms, bond/angle terms', '4 atoms, all term kinds', '3 atoms, angles only']
REPL = ['typed C-N-O with bonds + inserted F', 'empty', 'C-N-S (one element changed), typed']


def frag(fi, tabled, step):
    n = [1, 2, 3, 4, 3][fi]
    f = mk(n, tables=bool(tabled), tag=['xy', 'uv', 'pq', 'rs', 'ao'][fi], q0=-0.3, shift=7.0, kinds=KINDS if fi < 4 else ['angle'])
    f.translate(np.array([0.0, 2.0 * (step + 1), 0.0]))
    return f


def pattern(els, coords, tag, tables, bonds=()):
    uniq = list(dict.fromkeys(els))
    kw = dict(atom_types=[uniq.index(e) for e in els], atom_type_elements=uniq, atom_type_labels=['%s_%s' % (e, tag) for e in uniq], atom_type_masses=[MASS[e] for e in uniq],
              positions=np.array(coords, float), charges=[-0.2 * (i + 1) for i in range(len(els))], groups=[7] * len(els))
    if tables:
        kw['pair_coeffs'] = ['pc_%s_%s 0.1 # %s' % (tag, e, e) for e in uniq]
    if bonds:
        kw['bonds'] = list(bonds); kw['bond_types'] = [0] * len(bonds)
        if tables:
            kw['bond_type_coeffs'] = ['b_%s_0 9.5' % tag]
    return Atoms(**kw)


SEARCH_EL = ['C', 'N', 'O']; SEARCH_POS = np.array([(0.0, 0.0, 0.0), (1.0, 0.1, 0.0), (2.0, 0.2, 0.0)])


def repl_pattern(ri, tabled):
    if ri == 0:
        return pattern(['C', 'N', 'O', 'F'], list(SEARCH_POS) + [(0.5, 0.9, 0.2)], 'rp', tabled, bonds=[(1, 0), (1, 2), (0, 3)])
    if ri == 1:
        return Atoms()
    return pattern(['C', 'N', 'S'], SEARCH_POS, 'rq', tabled, bonds=[(0, 1)])


class Model:
    def __init__(self, tier):
        self.tier = tier
        self.depth = 3 if tier == 'quick' else 4
        self.full_levels = 1 if tier == 'quick' else 2

    def initial(self, i):
        st = self.initial_cold(i % 100); st['warm'] = i >= 100      # 100 + i: the same initial state, read-only calls before every operation
        return st

    def initial_cold(self, i):
        if i == 0:
            a = Atoms(); ref = RefStructure([], {k: [] for k in KINDS}, None); tabled = None
        elif i in FAR_INITS:
            a = mk(3, True, cell=FAR_INITS[i][0]); a.positions = np.asarray(a.positions, float) + FAR_INITS[i][1]
            ref = RefStructure.of(a); tabled = True
        else:
            a = [None, mk(3, True), mk(4, False), mk(3, True, xf=True), mk(4, True, kinds=['bond', 'improper']), mk(4, True, kinds=['angle', 'dihedral'])][i]
            ref = RefStructure.of(a); tabled = i != 2
        return dict(a=a, ref=ref, tabled=tabled)

    # ------------------------------------------------------------------ operation menu
    def ops(self, st, level):
        a = st['a']; n = len(a.atom_types); full = level < self.full_levels
        if level >= self.depth - 1 and not full:
            return self.last_level_ops(st)
        out = []
        for fi in range(len(FRAGS)):
            nf = [1, 2, 3, 4, 3][fi]
            if n + nf > CAP or (not full and fi in (1, 3)):
                continue
            maps = []
            if full and n <= 3:
                for r in range(0, min(n, nf) + 1):
                    for src in itertools.combinations(range(nf), r):
                        for dst in itertools.permutations(range(n), r):
                            maps.append([list(p) for p in zip(src, dst)])
            else:
                maps = [[]] + ([[[0, n - 1]], [[nf - 1, 0]]] if n else []) + ([[[0, 1], [1, 0]]] if n >= 2 and nf >= 2 and full else [])
            for tb in ([True, False] if st['tabled'] is None else [st['tabled']]):
                out += [['ext', fi, m, tb] for m in maps]
                if n + 2 * nf <= CAP and (full or fi == 2):
                    out.append(['ext2', fi, maps[-1] if maps else [], tb])
        if n:
            if n <= 4 and full:
                subsets = [list(S) for S in ordered_subsets(n)]
            else:
                bonded = sorted({int(x) for x in np.asarray(a.bonds).ravel()}) if len(a.bonds) else []
                subsets = [[0], [n - 1], list(range(n)), list(range(n // 2)), [n - 1, 0]] + ([bonded] if bonded else []) + ([[i for i in range(n) if i not in bonded]] if bonded and len(bonded) < n else [])
                subsets = [s for i, s in enumerate(subsets) if s and s not in subsets[:i]]
            out += [['del', S] for S in subsets]
            out += [['pop', None], ['pop', 0]]
            out += [['sub', [0]], ['sub', [n - 1, 0]], ['sub', list(range(n))[::-1]]] if full else [['sub', [n - 1, 0]]]
            out.append(['io'])
            if a.cell is not None:
                out.append(['rep', [1, 1, 1]])
                if 2 * n <= CAP:
                    out += [['rep', [2, 1, 1]], ['rep', [1, 1, 2]]]
                for ri in range(len(REPL)):
                    for ra in ((0, 1) if full and ri == 0 else (0,)):
                        out.append(['repl', ri, ra])
        out.append(['copy'])
        return out

    def last_level_ops(self, st):
        """covering menu of the last level: one operation of every kind, chosen to hit the emptied-kind / emptied-structure cases"""
        a = st['a']; n = len(a.atom_types); out = []
        tbs = [True, False] if st['tabled'] is None else [st['tabled']]
        for tb in tbs:
            for fi in (2, 4, 0):
                if n + [1, 2, 3, 4, 3][fi] <= CAP:
                    out.append(['ext', fi, [] if not n or fi == 0 else [[0, n - 1]], tb])
        if n:
            out += [['del', [0]], ['del', list(range(n))], ['pop', None], ['sub', [n - 1, 0]], ['io']]
            if n > 1:
                out.append(['del', [n - 1]])
            if a.cell is not None:
                out.append(['repl', 0, 0])
                if 2 * n <= CAP:
                    out.append(['rep', [2, 1, 1]])
        return out

    # ------------------------------------------------------------------ transitions
    def apply(self, st, op, step):
        a = _copy.deepcopy(st['a']); ref = st['ref'].copy(); tabled = st['tabled']      # harness-side clone (Atoms.copy is one of the operations under test)
        kind = op[0]
        if st.get('warm'):
            # read-only calls a library may be tempted to memoise on the object: none of them may change what later operations do
            call(lambda: (list(a.elements), len(a), a.num_atom_types, a.num_bond_types))
            if len(a.atom_types):
                call(a.save_lmpdat, io.StringIO())
                if a.cell is not None:
                    call(a.cell_abc_alpha_beta_gamma); call(a.cell_is_orthorhombic)
        inputs = []          # [(name, object)] handed to the operation besides the structure it works on; must come back untouched and unshared

        def real(f, *args, **kw):
            r, err = call(f, *args, **kw)
            if err:
                raise Violation('no-result', 'exc:' + exc_sig(err), '%r raised %r' % (op, err[0]))
            return r
        if kind in ('ext', 'ext2'):
            _, fi, m, tb = op
            F = frag(fi, tb, step); m = {int(s): int(d) for s, d in m}
            uid0 = 10000 * (step + 1)
            inputs = [('the fragment', F)]; before = [raw_state(F)]
            mdict = dict(m)
            if kind == 'ext':
                refF = RefStructure.of(F, uid0=uid0)
                real(a.extend, F, structure_index_map=mdict)
                ref.extend(refF, m)
            else:
                refF = RefStructure.of(F, uid0=uid0, origin=uid0)
                F2 = _copy.deepcopy(F); F2.translate(np.array([0.0, 0.0, 3.0]))
                inputs.append(('the second fragment', F2)); before.append(raw_state(F2))
                refF2 = RefStructure.of(F2, uid0=uid0 + 5000, origin=uid0)
                off = real(a.extend_types, F)
                real(a.extend, F, offsets=off, structure_index_map=mdict)
                ref.extend(refF, m)
                bad = untouched(before, inputs)
                if bad:
                    raise Violation('untouched', 'input-modified', '%r: %s' % (op, '; '.join(bad)))
                real(a.extend, F2, offsets=off)
                ref.extend(refF2, {})
            if mdict != m:
                raise Violation('untouched', 'input-modified', '%r: extend() changed the identity map it was given: %r -> %r' % (op, m, mdict))
            if tabled is None:
                tabled = tb
            if ref.cell is None and a.cell is not None:
                ref.cell = np.array(a.cell, float)
        elif kind == 'del':
            real(a.__delitem__, list(op[1])); ref.delete(op[1])
        elif kind == 'pop':
            n = len(a.atom_types)
            real(a.pop) if op[1] is None else real(a.pop, op[1])
            ref.delete([n - 1 if op[1] is None else op[1]])
        elif kind == 'rep':
            inputs = [('the original', a)]; before = [raw_state(a)]
            ref = ref.replicated(tuple(op[1])); a = real(a.replicate, tuple(op[1]))
        elif kind == 'copy':
            inputs = [('the original', a)]; before = [raw_state(a)]
            a = real(a.copy)
        elif kind == 'sub':
            inputs = [('the original', a)]; before = [raw_state(a)]
            a = real(a.__getitem__, list(op[1])); ref = ref.subset(op[1])
        elif kind == 'io':
            inputs = [('the saved structure', a)]; before = [raw_state(a)]
            s = io.StringIO(); real(a.save_lmpdat, s)
            s2 = io.StringIO(); real(a.save_lmpdat, s2)
            if s2.getvalue() != s.getvalue():
                raise Violation('lammps-writable', 'second-save-differs', '%r: saving the same object twice gives different text' % (op,))
            a = real(Atoms.load_lmpdat, io.StringIO(s.getvalue()))
            ref.lammps_roundtrip()
        elif kind == 'repl':
            _, ri, ra = op
            rp = repl_pattern(ri, True if tabled is None else tabled)
            sp = Atoms(elements=SEARCH_EL, positions=SEARCH_POS + np.array([2.2, -3.0, 0.4]))
            rp.translate(np.array([2.2, -3.0, 0.4]))
            REC.pop('last', None)
            ex = explorer(dict(seed=0, tier=self.tier))
            inputs = [('the structure', a), ('the search pattern', sp), ('the replacement pattern', rp)]; before = [raw_state(x) for _, x in inputs]
            refrp = RefStructure.of(rp, uid0=0) if len(rp.atom_types) else None
            (res, err), trace = ex.run(lambda: call(replace_pattern_in_structure, a, sp, rp, replace_all=bool(ra)), ())
            if err:
                raise Violation('no-result', 'exc:' + exc_sig(err), '%r raised %r' % (op, err[0]))
            rec = REC.get('last')
            matches = [tuple(int(i) for i in t) for t in rec[0]]
            used = [x for m in matches for x in m]
            if len(set(used)) != len(used):
                raise SG.Disabled()          # overlapping occurrences: C07's domain, not this alphabet's
            rel = list(rp.elements) if len(rp.atom_types) else []
            sh = shared_map(SEARCH_EL, SEARCH_POS, rel, np.asarray(rp.positions).reshape(-1, 3) - np.array([2.2, -3.0, 0.4])) if rel else {}
            uid0 = 10000 * (step + 1)
            nins = ref.replace(matches, (lambda mi: RefStructure.of(rp, uid0=uid0 + 100 * mi, origin=uid0)) if rel else (lambda mi: None), sh, bool(ra))
            a = res
            # positions of inserted atoms are C05's business: take them from the result (they are the tail)
            if nins:
                if len(a.atom_types) != len(ref.atoms):
                    raise Violation('resolved-view', 'atom-count', '%r: result has %d atoms, reference %d' % (op, len(a.atom_types), len(ref.atoms)))
                for j in range(len(ref.atoms) - nins, len(ref.atoms)):
                    r = ref.atoms[j]['rec']; ref.atoms[j]['rec'] = r[:-1] + (tuple(float(x) for x in a.positions[j]),)
        else:
            raise HarnessError('unknown op %r' % (op,))
        if inputs:
            bad = untouched(before, inputs)
            if bad:
                raise Violation('untouched', 'input-modified', '%r: %s' % (op, '; '.join(bad)))
            keep = _copy.deepcopy(a)
            bad = alias_probe(a, inputs, 'the structure' if kind in ('ext', 'ext2') else 'the result')
            if bad:
                raise Violation('untouched', 'shared-data', '%r: %s' % (op, '; '.join(bad)))
            a = keep
        return dict(a=a, ref=ref, tabled=tabled, warm=st.get('warm', False))

    # ------------------------------------------------------------------ invariant
    def check(self, st):
        a, ref = st['a'], st['ref']
        try:
            v = view(a)
        except Inconsistent as e:
            raise Violation('consistent-' + e.clause, e.clause, str(e))
        except Exception as e:
            raise Violation('consistent-I1', 'unreadable', 'object cannot be inspected: %r' % (e,))
        d = compare_views(v, ref.view())
        if d:
            raise Violation('resolved-view', d.split(' ')[0] + (' coeff' if 'resolves to' in d else ''), d)
        els, err = call(lambda: [str(x) for x in a.elements])
        if err or els != [x[0] for x in v[0]] or len(a) != len(v[0]):
            raise Violation('consistent-I1', 'elements-accessor', 'atoms.elements gives %r (len(atoms) = %r), the per-atom types resolve to %r' % (err[0] if err else els, len(a), [x[0] for x in v[0]]))
        if len(a.atom_types) >= 1:
            s = io.StringIO(); _, err = call(a.save_lmpdat, s)
            if err:
                raise Violation('lammps-writable', 'exc:' + exc_sig(err), 'save_lmpdat raised %r' % (err[0],))
            text = s.getvalue()
            try:
                hdr, box, secs = RL.read(text)
            except RL.Unreadable as e:
                raise Violation('lammps-writable', 'unreadable', 'written text cannot be read: %s' % e)
            errs = RL.consistency(hdr, secs, 'full')
            if errs:
                raise Violation('lammps-writable', errs[0].split(' declared')[0][-24:], 'written LAMMPS file is inconsistent: %s' % errs[0])
            want = ref.copy(); want.lammps_roundtrip(); wv = want.view()
            fv = file_view(hdr, secs, wv)
            d = compare_views(fv, wv, pos_tol=1e-6)
            if d:
                raise Violation('lammps-states', d.split(' ')[0], 'the written LAMMPS file does not state the structure: %s' % d)
            b, err = call(Atoms.load_lmpdat, io.StringIO(text))
            if err:
                raise Violation('lammps-readback', 'exc:' + exc_sig(err), 'load_lmpdat of the written file raised %r' % (err[0],))
            try:
                d = compare_views(view(b), wv, pos_tol=1e-6)
            except Inconsistent as e:
                d = 'inconsistent: %s' % e
            if d:
                raise Violation('lammps-readback', d.split(' ')[0], 'the written LAMMPS file does not read back to the same structure: %s' % d)

    def key(self, st):
        return (raw_state(st['a']), st['ref'].view(), st['tabled'], st.get('warm', False))


def file_view(hdr, secs, like):
    """resolved view read from a LAMMPS data file by the independent reader (elements are not in the file: taken from `like`)"""
    masses = secs.get('Masses', []); pair = secs.get('Pair Coeffs', [])
    atoms = []
    for i, (tok, c) in enumerate(secs.get('Atoms', [])):
        t = int(tok[2]) - 1
        pc = None if not pair else ' '.join(pair[t][0][1:]) + ('' if pair[t][1] is None else ' # ' + pair[t][1])
        el = like[0][i][0] if i < len(like[0]) else None
        atoms.append((el, (masses[t][1] or '').strip(), round(float(masses[t][0][1]), 6), pc, round(float(tok[3]), 6), int(tok[1]) - 1, (), tuple(float(x) for x in tok[4:7])))
    terms = {}
    for k, sec, csec, ar in RL.KIND:
        co = secs.get(csec, []); out = []
        for tok, c in secs.get(sec, []):
            t = int(tok[1]) - 1
            text = '#%d' % t if not co else ' '.join(co[t][0][1:]) + ('' if co[t][1] is None else ' # ' + co[t][1])
            out.append((tuple(int(x) - 1 for x in tok[2:2 + ar]), text, ()))
        terms[k] = out
    return atoms, terms


_M = {}


def model(tier):
    if tier not in _M:
        _M[tier] = Model(tier)
    return _M[tier]


def plan(tier, seed):
    m = model(tier)
    scs = []
    for i in range(len(INITS)):
        st = m.initial(i)
        for k, op in enumerate(m.ops(st, 0)):
            scs.append(dict(init=i + (100 if k % 2 else 0), first=op))      # every second subtree is explored 'warm'
    return dict(scenarios=scs, exhaustive=True, chunk=1, timeout=7200,
                menus=dict(initial_states=INITS, fragments=FRAGS, replacements=REPL,
                           operations=['extend (fragment x identity map)', 'extend_types + extend twice', 'delete subset', 'pop', 'replicate', 'copy', 'subset', 'replace', 'save_lmpdat+load_lmpdat'],
                           menu='full menu (every identity map / deletion subset on states of <= 3-4 atoms) on the first %d level(s), covering menu below, one operation of every kind on the last level' % m.full_levels),
                bounds=dict(depth=m.depth, max_atoms=CAP),
                rule='one scenario per (initial state, first operation); breadth-first search below it; states deduplicated by the complete observable content; non-trivial = distinct states',
                assumptions=['operation alphabet stays inside the compatibility domain of C06 (fragments and patterns define coefficient tables iff the structure does)',
                             'positions of atoms inserted by replace are taken from the result (C05 decides them)', 'reference model mc/ref/structure.py, independent LAMMPS reader mc/ref/lammps.py'])


def run(sc, ctx):
    m = model(ctx['tier'])
    out = dict(evals=0, compared=0, violations=[], outcomes={}, hashes=set(), nontrivial=0)
    stats = dict(transitions=0, violating_transitions=0, max_depth=0, replays=0)
    if 'history' in sc:                                   # replay of a recorded counterexample
        st, bad = SG.replay(m, sc['init'], sc['history'])
        out['evals'] = len(sc['history']); out['compared'] = out['evals']
        if bad:
            v = bad[1]
            out['violations'].append(viol(v.clause, v.sig, 'history %r from "%s": step %d: %s' % (sc['history'], INITS[sc['init'] % 100], bad[0], v.msg), sc))
        return out
    seen, viols = SG.bfs(m, sc['init'], [sc['first']], 2 if sc['init'] % 100 in FAR_INITS else m.depth, stats)
    out['hashes'] = seen; out['evals'] = stats['transitions']; out['compared'] = stats['transitions'] + stats['replays']
    out['violating_transitions'] = stats['violating_transitions']; out['max_depth'] = stats['max_depth']; out['replayed_from_initial_state'] = stats['replays']
    for hist, v in viols:
        out['violations'].append(viol(v.clause, v.sig, 'history %r from "%s": %s' % (hist, INITS[sc['init'] % 100], v.msg), dict(init=sc['init'], history=hist)))
    out['outcomes']['init=%d first=%s' % (sc['init'] % 100, sc['first'][0])] = 1
    out['nontrivial_hashes'] = set(seen)       # distinct states, counted once across scenarios
    if sc['init'] % 100 == 1 and sc['first'][0] == 'del' and sc['first'][1] == [0]:
        out['samples'] = [dict(initial=INITS[1], first_operation=sc['first'], depth=m.depth, states_below=len(seen))]
    return out
