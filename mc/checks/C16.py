"""C16 - CML molecules load faithfully.

E1, exhaustive: n in {1..4} atoms x id schemes x every bond set over the n(n-1)/2 pairs x
{forward, reversed, alternating} reference direction x {document order, reversed} bond order x
coordinate menu x document flavour x {path, open file, Atoms.load(path), Atoms.load(file,'cml')}.
Oracle: the generating description (ref_cml): atoms in document order with element and coordinates,
bonds as index pairs in document order, zero bonds when none.
"""
import io, os, itertools, tempfile
import numpy as np
from mc.checks.common import *
from mc.ref.cml import write_cml

ENGINE = 'E1 product'
ELS = ['C', 'Zr', 'H', 'O', 'N']
COORDS = [
    ('small positive', lambda i: (1.0 + 1.1 * i, 0.25 * i, 2.0)),
    ('negative and mixed', lambda i: (-1.5 * i - 0.3, 2.0 - i, -7.125)),
    ('large / tiny magnitudes', lambda i: (1000.0 + i, 1e-4 * (i + 1), -12345.678901)),
    ('below 1e-8', lambda i: (3e-9 * (i + 1), -7.5e-12, 1e-30 * (i + 1))),
]
FLAVOURS = ['plain', 'xml header + formalCharge attributes', 'empty bondArray element kept when no bonds']


LONG_IDS = [('a1..an', lambda i: 'a%d' % (i + 1)), ('zero-padded, 17 characters', lambda i: 'atom_%012d' % (i * 7 + 3)), ('chain:residue:atom names of 20-30 characters', lambda i: 'chainA:residue%03d:%s%d' % (i // 4, 'CHON'[i % 4], i)),
            ('long common prefix, differing after character 20', lambda i: 'linker_1_carboxylate_oxygen_%d_%s' % (i, 'ab'[i % 2])), ('16 characters exactly', lambda i: 'id%014d' % (i * 3 + 1))]


def long_case(n, ii, order):
    """chain molecule of n atoms (n - 1 bonds, plus a few ring closures): ids by scheme, atoms listed in a shuffled order"""
    ids = [LONG_IDS[ii][1](i) for i in range(n)]
    perm = list(range(n)) if order == 0 else [(i * 37 + 11) % n for i in range(n)] if n % 37 else [(i * 41 + 11) % n for i in range(n)]
    assert sorted(perm) == list(range(n))
    els = [ELS[i % len(ELS)] for i in range(n)]; xyz = [(1.5 * (i % 50), 1.1 * (i // 50), -0.25 * i) for i in range(n)]
    chain = [(i, i + 1) for i in range(n - 1)] + [(0, n - 1), (n // 2, 3)]
    bonds = [(perm.index(a), perm.index(b)) if (j % 3) else (perm.index(b), perm.index(a)) for j, (a, b) in enumerate(chain)]
    return [ids[p] for p in perm], [els[p] for p in perm], [xyz[p] for p in perm], bonds


def id_schemes(n):
    out = [('a1..an', ['a%d' % (i + 1) for i in range(n)]),
           ('reversed numbering', ['a%d' % (n - i) for i in range(n)]),
           ('arbitrary strings', ['Zr_x', 'atom-7', 'q', 'a10'][:n]),
           ('ids colliding with positions', (['a2', 'a1', 'a4', 'a3'] if n > 1 else ['a2'])[:n])]
    if 2 <= n <= 3:
        for perm in itertools.permutations(range(n)):
            out.append(('permutation %s' % (perm,), ['a%d' % (p + 1) for p in perm]))
    else:
        out.append(('rotated numbering', ['a%d' % ((i + 1) % n + 1) for i in range(n)]))
    seen = set(); uniq = []
    for name, ids in out:
        if tuple(ids) not in seen and len(set(ids)) == n:
            seen.add(tuple(ids)); uniq.append((name, ids))
    return uniq


def plan(tier, seed):
    N = 4 if tier == 'quick' else 5
    scs = []
    for n in range(1, N + 1):
        for si in range(len(id_schemes(n))):
            for ci in range(len(COORDS)):
                for fl in range(len(FLAVOURS)):
                    scs.append(dict(n=n, scheme=si, coords=ci, flavour=fl))
    scs += [dict(long=n, ids=i, order=o) for n in (200, 257, 258, 300, 1000) for i in range(len(LONG_IDS)) for o in (0, 1)]
    return dict(scenarios=scs, exhaustive=(tier == 'quick'), chunk=2, caps=[] if tier == 'quick' else ['n=5: bond sets of <= 3 pairs plus the complete graph only (n <= 4 is exhaustive)'],
                menus=dict(n_atoms=list(range(1, N + 1)), id_schemes=[x[0] for x in id_schemes(3)], coords=[c[0] for c in COORDS], flavours=FLAVOURS,
                           bond_sets='every subset of the pairs for n<=4; for n=5 every subset of <=3 pairs plus the full set', directions=['forward', 'reversed', 'alternating'],
                           bond_order=['document', 'reversed'], routes=['load_cml(path)', 'load_cml(file)', 'Atoms.load(path)', "Atoms.load(file, 'cml')", "Atoms.load(path.v2.txt, filetype='cml')"]),
                bounds=dict(max_atoms=N, long_molecules=[200, 257, 258, 300, 1000]), rule='one scenario per (n, id scheme, coordinates, flavour); all bond sets x directions x orders x routes inside; non-trivial = at least one bond and a non-sequential id scheme',
                assumptions=['documents are of the Avogadro flavour without XML namespace, as the repository example files'])


def bond_sets(n):
    pairs = list(itertools.combinations(range(n), 2))
    if n <= 4:
        for mask in range(1 << len(pairs)):
            yield [pairs[i] for i in range(len(pairs)) if mask >> i & 1]
    else:
        for r in range(0, 4):
            for c in itertools.combinations(pairs, r):
                yield list(c)
        yield pairs
    # one bond per bond ENTRY: documents that list the same atom pair more than once (same and opposite direction)
    if n >= 2:
        yield [pairs[0], pairs[0]]
        yield [pairs[0], pairs[-1], pairs[0], pairs[0]]


_tmp = {}


def run(sc, ctx):
    out = dict(evals=0, compared=0, violations=[], outcomes={}, hashes=set(), nontrivial=0)
    if 'long' in sc:
        ids, els, xyz, bonds = long_case(sc['long'], sc['ids'], sc['order'])
        text = write_cml(ids, els, xyz, bonds, flavour=sc['order'])
        if 'dir' not in _tmp:
            _tmp['dir'] = tempfile.mkdtemp(prefix='mofun-verif-c16-')
            import atexit, shutil
            atexit.register(shutil.rmtree, _tmp['dir'], True)
        path = os.path.join(_tmp['dir'], 'long%d.cml' % os.getpid())
        with open(path, 'w') as f:
            f.write(text)
        for rname, fn in (('load_cml(path)', lambda: Atoms.load_cml(path)), ('load_cml(file)', lambda: Atoms.load_cml(io.StringIO(text))), ('Atoms.load(path)', lambda: Atoms.load(path))):
            a, err = call(fn)
            out['evals'] += 1; out['compared'] += 1
            what = '%s, molecule of %d atoms and %d bonds, ids "%s"' % (rname, len(ids), len(bonds), LONG_IDS[sc['ids']][0])
            if err:
                out['violations'].append(viol('cml-load', 'long-exc:' + exc_sig(err), '%s raised %r' % (what, err[0]), sc)); continue
            bad = None
            if list(a.elements) != els:
                bad = 'elements differ from the document'
            elif np.asarray(a.positions).shape != (len(ids), 3) or np.abs(np.asarray(a.positions) - np.array(xyz)).max() > 0:
                bad = 'positions differ from the document'
            elif [tuple(int(x) for x in b) for b in np.asarray(a.bonds).reshape(-1, 2)] != bonds:
                got = [tuple(int(x) for x in b) for b in np.asarray(a.bonds).reshape(-1, 2)]
                bad = 'bonds differ from the document: %d read, %d written, first difference %r' % (len(got), len(bonds), [(g, b) for g, b in zip(got, bonds) if g != b][:2])
            elif len(a.bond_types) != len(bonds):
                bad = '%d bond types for %d bonds' % (len(a.bond_types), len(bonds))
            if bad:
                out['violations'].append(viol('cml-load', 'long-content', '%s: %s' % (what, bad), sc))
        out['hashes'].add(h64(text)); out['nontrivial'] += 1; out['outcomes']['long molecule'] = 1
        return out
    n = sc['n']; sname, ids = id_schemes(n)[sc['scheme']]
    els = ELS[:n]; xyz = [COORDS[sc['coords']][1](i) for i in range(n)]
    if 'dir' not in _tmp:
        _tmp['dir'] = tempfile.mkdtemp(prefix='mofun-verif-c16-')
        import atexit, shutil
        atexit.register(shutil.rmtree, _tmp['dir'], True)
    path = os.path.join(_tmp['dir'], 'm%d.cml' % os.getpid())
    for bs in bond_sets(n):
        for di in range(3 if bs else 1):
            for rev in ((0, 1) if len(bs) > 1 else (0,)):
                bonds = [(b, a) if (di == 1 or (di == 2 and j % 2)) else (a, b) for j, (a, b) in enumerate(bs)]
                if rev:
                    bonds = bonds[::-1]
                text = write_cml(ids, els, xyz, bonds, flavour=sc['flavour'])
                out['hashes'].add(h64(text))
                with open(path, 'w') as f:
                    f.write(text)
                path2 = path[:-4] + '.v2.txt'
                with open(path2, 'w') as f:
                    f.write(text)
                routes = [("Atoms.load(path with another extension, filetype='cml')", lambda: Atoms.load(path2, filetype='cml')), ('load_cml(path)', lambda: Atoms.load_cml(path)), ('load_cml(file)', lambda: Atoms.load_cml(io.StringIO(text))),
                          ('Atoms.load(path)', lambda: Atoms.load(path)), ("Atoms.load(file,'cml')", lambda: Atoms.load(io.StringIO(text), 'cml'))]
                for rname, fn in routes:
                    a, err = call(fn)
                    out['evals'] += 1; out['compared'] += 1
                    if err:
                        out['violations'].append(viol('cml-load', ('no-bonds-' if not bonds else '') + 'exc:' + exc_sig(err), '%s raised %r for n=%d ids=%s bonds=%s' % (rname, err[0], n, ids, bonds), sc, text=text))
                        continue
                    bad = None
                    if list(a.elements) != els:
                        bad = 'elements %r, document says %r' % (list(a.elements), els)
                    elif np.asarray(a.positions).shape != (n, 3) or np.abs(np.asarray(a.positions) - np.array(xyz)).max() > 0:
                        bad = 'positions %r, document says %r' % (np.asarray(a.positions).tolist(), xyz)
                    elif [tuple(int(x) for x in b) for b in np.asarray(a.bonds).reshape(-1, 2)] != bonds:
                        bad = 'bonds %r, document says %r (ids %s)' % (np.asarray(a.bonds).tolist(), bonds, ids)
                    elif len(a.bond_types) != len(bonds):
                        bad = '%d bond types for %d bonds' % (len(a.bond_types), len(bonds))
                    if bad:
                        out['violations'].append(viol('cml-load', 'content:' + bad.split()[0], '%s: %s' % (rname, bad), sc, text=text))
                if n >= 2 and di == 0 and not rev:
                    # history: a loaded molecule is edited in place by supported operations (an atom adopts another type through extend with
                    # shared ids, translate, delete); loading the same document again must still give the document
                    a1, e1 = call(Atoms.load_cml, io.StringIO(text))
                    if not e1:
                        other = Atoms(atom_types=[0], atom_type_elements=[str(x) for x in a1.atom_type_elements], atom_type_labels=[str(x) for x in a1.atom_type_labels],
                                      atom_type_masses=[float(x) for x in a1.atom_type_masses], positions=[(0.0, 0.0, 0.0)])
                        call(a1.extend, other, offsets=(0, 0, 0, 0, 0), structure_index_map={0: n - 1})
                        scribble(a1)
                        for rname, fn in (('load_cml(file) after an earlier load of the same document was edited in place', lambda: Atoms.load_cml(io.StringIO(text))), ('load_cml(path) after an earlier load was edited in place', lambda: Atoms.load_cml(path))):
                            a2, e2 = call(fn)
                            out['evals'] += 1; out['compared'] += 1
                            if e2:
                                out['violations'].append(viol('cml-load', 'history-exc:' + exc_sig(e2), '%s raised %r' % (rname, e2[0]), sc, text=text)); continue
                            els2, e3 = call(lambda: [str(x) for x in a2.elements])
                            if e3 or els2 != els or np.abs(np.asarray(a2.positions) - np.array(xyz)).max() > 0 or [tuple(int(x) for x in b) for b in np.asarray(a2.bonds).reshape(-1, 2)] != bonds:
                                out['violations'].append(viol('cml-load', 'history:content', '%s: elements %r, document says %r' % (rname, e3[0] if e3 else els2, els), sc, text=text))
                key = 'bonds=%d' % len(bonds)
                out['outcomes'][key] = out['outcomes'].get(key, 0) + 1
                if bonds and sc['scheme'] > 0:
                    out['nontrivial'] += 1
                if n == 3 and sc['scheme'] == 3 and sc['coords'] == 1 and len(bonds) == 2 and di == 2 and 'samples' not in out:
                    out['samples'] = [dict(document=text, expected_bonds=bonds)]
    return out
