"""C01 - every reported match is a genuine rigid-motion image of the pattern.

E1 over CELLS x PATTERNS x POSES x PLACEMENTS x DECOYS x (ATOL, NOISE), multi-copy layouts, and a
hints sub-product (every valid partial / full hint form, index 0 included); E2 over every answer of
the random draws inside each execution.  Oracle per reported match (no reference search needed):
distinct in-range indices with the pattern's elements in pattern order; returned position = stored
position + lattice vector; the returned (proper) rotation with the best translation carries the
pattern onto the returned positions within atol; no reported group is OUT (section 2 of DESIGN.md);
the three return arrays agree in length; the plain call returns the same tuples for the same draws.
"""
import numpy as np
from scipy.spatial.transform import Rotation as R
from mc.checks.findlib import *
from mc.ref.geom import subset_rmsd_bound

ENGINE = 'E1+E2'


def plan(tier, seed):
    scs = base_scenarios(tier, seed, hints=True) + special_scenarios(tier) + history_scenarios(tier)
    return dict(scenarios=scs, exhaustive=True, chunk=40, menus=menus(tier, seed),
                bounds=dict(draw_deviation_bound=draw_bound(tier), executions_cap_per_scenario=60 if tier == 'quick' else 300),
                rule='one scenario per alphabet tuple, every draw answer within the bound inside; non-trivial = at least one match is reported and the scenario has a decoy, a boundary-crossing placement or hints',
                assumptions=['coverage over the stated finite menus of cells, poses, placements, tolerances, noise vectors and random-vector answers, not over R^3',
                             'draw trees larger than the deviation bound / cap are explored up to the bound (counted in bounded_out)'])


def check_match(m, sc, idx, pos, quat, n, pel, pp, cell, atol):
    """list of (clause, message) for one reported match"""
    bad = []
    k = len(pel)
    idx = [int(i) for i in idx]
    if len(idx) != k or len(set(idx)) != k or any(not (0 <= i < n) for i in idx):
        return [('indices', 'match %r does not list %d distinct existing atoms' % (idx, k))]
    els = m['spec']['el']
    if [els[i] for i in idx] != list(pel):
        bad.append(('elements', 'match %r has elements %r, pattern order is %r' % (idx, [els[i] for i in idx], pel)))
    pos = np.asarray(pos, float)
    if pos.shape != (k, 3):
        return bad + [('positions', 'returned positions have shape %r' % (pos.shape,))]
    stored = m['spec']['pos'][idx]
    f = (pos - stored) @ np.linalg.inv(cell)
    if np.abs(f - np.round(f)).max() > 1e-9 or np.abs(np.round(f)).max() > 1:
        bad.append(('lattice', 'returned positions of match %r are not stored positions plus a lattice vector of the 27 neighbour cells (fractional offsets %r)' % (idx, np.round(f, 6).tolist())))
    try:
        q = quat if isinstance(quat, R) else R.from_quat(quat)
        Rm = q.as_matrix()
    except Exception as e:
        return bad + [('rotation', 'returned rotation unusable: %r' % (e,))]
    if abs(np.linalg.det(Rm) - 1) > 1e-9 or np.abs(Rm @ Rm.T - np.identity(3)).max() > 1e-9:
        bad.append(('rotation', 'returned rotation is not a proper rotation'))
    P = m['p'].positions
    res = rigid_residual(P, pos, Rm)
    tol = atol + 1e-5 * max(np.abs(pos).max(), np.abs(P).max() + np.abs(pos).max()) + 1e-9
    if res > tol:
        bad.append(('rigid-image', 'match %r: returned rotation + best translation leaves a coordinate residual %.4g > atol %.4g' % (idx, res, atol)))
    rmsd = subset_rmsd_bound(pp, pos)
    pd = np.linalg.norm(pp[:, None] - pp[None], axis=2); xd = np.linalg.norm(pos[:, None] - pos[None], axis=2)
    if rmsd > 1.8 * atol + 1e-3 or np.abs(pd - xd).max() > 3.7 * atol:
        bad.append(('out-of-tolerance', 'match %r is clearly outside the tolerance for every proper motion (Kabsch rmsd over all atoms / over 4-atom subsets >= %.3f, pair discrepancy %.3f, atol %.3f): mirror image or wrong atoms' % (idx, rmsd, np.abs(pd - xd).max(), atol)))
    return bad


def run_hist(sc, ctx, out):
    """the per-match oracle applied to the search on objects with a past, judged on their current content"""
    e = run_history(sc, ctx)
    desc = dict(history=e['name'], base=HIST_BASES[sc['base']], hints=e['kw'])
    if e.get('alias'):
        out['violations'].append(viol('history', 'shared-data', '%s: %s' % (e['name'], e['alias']), sc, case=desc))
    if e.get('skip'):
        out['outcomes']['history skipped: ' + e['skip'][:40]] = 1; return out
    S, Pt = e['S'], e['P']; out['evals'] += 1
    if e['err']:
        out['violations'].append(viol('no-result', 'history-exc:' + exc_sig(e['err']), 'after the history "%s" the search raised %r' % (e['name'], e['err'][0]), sc, case=desc)); return out
    idxs, poss, quats = e['res']
    m2 = dict(spec=dict(el=[str(x) for x in S.elements], pos=np.asarray(S.positions, float)), p=Pt, cell=np.asarray(S.cell, float))
    pel = [str(x) for x in Pt.elements]; pp = np.asarray(Pt.positions, float)
    for j in range(len(idxs)):
        out['compared'] += 1
        for clause, msg in check_match(m2, sc, idxs[j], poss[j], quats[j], len(m2['spec']['el']), pel, pp, m2['cell'], e['atol']):
            out['violations'].append(viol(clause, 'history:' + clause, 'after the history "%s" (judged on the current content of structure and pattern): %s' % (e['name'], msg), sc, case=desc))
    out['outcomes']['history matches=%d' % len(idxs)] = 1; out['nontrivial'] = 1 if len(idxs) else 0
    return out


def run(sc, ctx):
    out = dict(evals=0, compared=0, violations=[], outcomes={}, hashes={h64(sc)}, nontrivial=0, gray=0)
    if 'history' in sc:
        return run_hist(sc, ctx, out)
    m = materialise(sc, ctx)
    spec = m['spec']; n = len(spec['el']); atol = sc['atol']
    bound = draw_bound(ctx['tier'])
    exs = executions(m, sc, ctx, bound, with_plain=True)
    nm = set()
    for answers, res, err, plain in exs:
        out['evals'] += 1
        if err:
            out['violations'].append(viol('no-result', 'exc:' + exc_sig(err), 'find_pattern_in_structure raised %r (draw answers %r)' % (err[0], answers), sc, case=describe_case(m, sc), tb=err[1]))
            continue
        try:
            idxs, poss, quats = res
        except Exception:
            out['violations'].append(viol('return-shape', 'shape', 'return value is not (indices, positions, rotations): %r' % (res,), sc)); continue
        if not (len(idxs) == len(poss) == len(quats)):
            out['violations'].append(viol('return-shape', 'lengths', 'the three return arrays have lengths %d, %d, %d' % (len(idxs), len(poss), len(quats)), sc, case=describe_case(m, sc)))
            continue
        if plain is not None and [tuple(int(i) for i in t) for t in plain] != [tuple(int(i) for i in t) for t in idxs]:
            out['violations'].append(viol('return-shape', 'plain-differs', 'the plain call returned %r, the call with positions %r for the same draw answers %r' % (plain, idxs, answers), sc))
        for j in range(len(idxs)):
            out['compared'] += 1
            for clause, msg in check_match(m, sc, idxs[j], poss[j], quats[j], n, spec['pel'], spec['pp'], m['cell'], atol):
                out['violations'].append(viol(clause, clause, '%s [draw answers %r]' % (msg, answers), sc, case=describe_case(m, sc), answers=list(answers)))
        nm.add(len(idxs))
    key = 'matches=%s draws=%d' % (sorted(nm), len(exs))
    out['outcomes'][key] = 1
    if nm and max(nm) > 0 and (sc['decoy'] != 'none' or sc.get('hints') or min(G.PLACEMENTS[sc['place']]) < 0.1 or max(G.PLACEMENTS[sc['place']]) > 0.9):
        out['nontrivial'] = 1
    st = explorer(ctx).stats
    if sc.get('pat') == 'CH4' and sc.get('pose') == 2 and sc['decoy'] == 'mirror' and 'samples' not in out and sc['cell'] == 2:
        out['samples'] = [dict(case=describe_case(m, sc), executions=[dict(answers=list(a), matches=r[0]) for a, r, e, p in exs[:4] if r])]
    return out


def finish(total, ctx):
    return {}
