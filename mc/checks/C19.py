"""C19 - term enumeration is complete and term typing depends only on UFF types.

Part 1 (enumeration), exhaustive: every labelled triangle-free graph without isolated vertices on
n <= 5 (quick) / 6 (thorough) nodes x bond-list presentations {canonical, all edges reversed, every
single-edge reversal, reversed list, rotated list, one duplicated bond}.  Oracle: set definitions of
angles / dihedrals, compared as multisets modulo reversal.
Part 2 (typing), exhaustive: graphs n <= 4 x every assignment from a 6-type alphabet (n = 5: a
covering menu) x every exclusion subset x term-list presentations x atom renamings.  Oracle: same
type <=> same reversal-canonical UFF sequence (+ torsion count about the central bond); coefficient
text = ref_uff of that sequence in the documented format; None-torsions dropped; exclusion honoured;
retype_atoms_from_uff_types / assign_pair_coeffs tables agree with the per-atom types.
"""
import itertools, collections, functools
import numpy as np
from mc.checks.common import *
from mc.ref.uff import RefUFF
import mofun.rough_uff as ru
from mofun.uff4mof import UFF4MOF, MAIN_GROUP_ELEMENTS
from mofun.atomic_masses import ATOMIC_MASSES

ENGINE = 'E1 product'
REF = RefUFF(UFF4MOF, MAIN_GROUP_ELEMENTS)
TYPES = ['C_3', 'C_R', 'C_1', 'O_3', 'H_', 'Zn3f2']
_G = {}


def worker_init(ctx):
    ru.print = lambda *a, **k: None


def graphs(n):
    if n in _G:
        return _G[n]
    pairs = list(itertools.combinations(range(n), 2)); out = []
    for mask in range(1, 1 << len(pairs)):
        edges = [pairs[i] for i in range(len(pairs)) if mask >> i & 1]
        adj = {i: set() for i in range(n)}
        for a, b in edges:
            adj[a].add(b); adj[b].add(a)
        if any(not adj[i] for i in adj) or any(adj[a] & adj[b] for a, b in edges):
            continue
        out.append(edges)
    _G[n] = out
    return out


def canon(t):
    t = tuple(int(x) for x in t)
    return min(t, t[::-1])


def ref_terms(n, edges):
    adj = {i: set() for i in range(n)}
    for a, b in edges:
        adj[a].add(b); adj[b].add(a)
    ang = sorted(canon((a, j, b)) for j in adj for a, b in itertools.combinations(sorted(adj[j]), 2))
    dih = sorted(canon((i, j, k, l)) for j, k in edges for i in adj[j] - {k} for l in adj[k] - {j} if i != l)
    return ang, dih


def presentations(edges):
    yield 'canonical', list(edges)
    yield 'all reversed', [(b, a) for a, b in edges]
    for i in range(len(edges)):
        yield 'edge %d reversed' % i, [e if j != i else (e[1], e[0]) for j, e in enumerate(edges)]
    yield 'list reversed', list(edges)[::-1]
    yield 'list rotated', list(edges)[1:] + list(edges)[:1]
    yield 'duplicate bond', list(edges) + [edges[0][::-1]]
    yield 'duplicate bond same direction', [edges[-1]] + list(edges)


def cover5():
    r = []
    for s in range(6):
        r.append(tuple(TYPES[(i + s) % 6] for i in range(5)))
        r.append(tuple(TYPES[(2 * i + s) % 6] for i in range(5)))
    r += [('C_3',) * 5, ('C_R',) * 5, ('C_R', 'C_R', 'C_3', 'C_3', 'O_3'), ('O_3', 'O_3', 'C_R', 'C_3', 'C_R')]
    r += list(itertools.product(['H_', 'C_3', 'O_3'], repeat=5))        # every assignment of a 3-type alphabet: equal ends with different centres in both listing directions
    return r


def plan(tier, seed):
    nmax = 5 if tier == 'quick' else 6
    scs = []
    for n in range(2, nmax + 1):
        g = graphs(n)
        for lo in range(0, len(g), 40):
            scs.append(dict(kind='enum', n=n, lo=lo, hi=min(len(g), lo + 40)))
    for n in range(2, 5):
        for gi in range(len(graphs(n))):
            for t0 in range(len(TYPES)):
                scs.append(dict(kind='typing', n=n, g=gi, t0=t0))
    for gi in range(len(graphs(5))):
        scs.append(dict(kind='typing', n=5, g=gi, t0=None))
    scs += [dict(kind='large', case=i) for i in range(3)]
    scs += [dict(kind='history', h=h) for h in range(3)]
    return dict(scenarios=scs, exhaustive=True, chunk=2,
                menus=dict(graphs={n: len(graphs(n)) for n in range(2, nmax + 1)}, presentations=['canonical', 'all reversed', 'every single-edge reversal', 'list reversed', 'list rotated', 'duplicate bond (either direction)'],
                           type_alphabet=TYPES, assignments='all 6^n for n<=4; for n=5 all 3^5 assignments of {H_, C_3, O_3} + %d covering assignments of the 6-type alphabet' % (len(cover5()) - 243), exclusion='every subset of atoms for n<=4; {none, first 4 atoms, all} for n=5',
                           term_list=['as enumerated', 'reversed list + reversed tuples', 'rotated list'], renamings='every permutation for n<=3, reversal and rotation for n>=4'),
                bounds=dict(max_nodes_enumeration=nmax, max_nodes_typing=5),
                rule='enumeration: one case per (graph, presentation); typing: one case per (graph, assignment, exclusion set, presentation/renaming); non-trivial = the graph has at least one dihedral',
                assumptions=['bond graphs without three-membered rings, every atom bonded', 'the torsion count M about a central bond is counted before the exclusion set is applied (as the implementation documents)',
                             'reference equations mc/ref/uff.py'])


# ------------------------------------------------------------------ expected coefficient text
@functools.lru_cache(maxsize=None)
def fmt_bond(seq):
    i, j = [REF.K.index(x) for x in seq]
    return '%10.6f %10.6f' % (REF.kb[i, j], REF.rb[i, j])


@functools.lru_cache(maxsize=None)
def fmt_angle(seq):
    i, j, k = [REF.K.index(x) for x in seq]
    style, kijk, tail = REF.angle_slab(j)
    if style == 'fourier':
        return '%s %10.6f %10.6f %10.6f %10.6f' % ((style, kijk[i, k]) + tuple(tail))
    return '%s %10.6f %d %d' % ((style, kijk[i, k]) + tuple(tail))


@functools.lru_cache(maxsize=None)
def tors(seq, M):
    i, j, k, l = [REF.K.index(x) for x in seq]
    return REF.torsion(i, j, k, l, M=M)


def check_coeff(text, seq, expected_numeric, extra=''):
    """coefficient text = numeric part as documented + comment naming the sequence (either direction)"""
    body, _, comment = text.partition('#')
    if body.split() != expected_numeric.split():
        return 'parameters %r, expected %r' % (body.strip(), expected_numeric.strip())
    toks = comment.split()
    names = [t for t in toks if not t.startswith('M=')]
    if tuple(names) not in (tuple(seq), tuple(seq[::-1])):
        return 'comment names %r, sequence is %r' % (names, list(seq))
    if extra and extra not in toks:
        return 'comment lacks %r' % extra
    return None


def run_typing(n, edges, types, exclude, pres, perm, sc, out, order=(0, 1, 2)):
    """one execution of the three assign_* functions on one presentation; returns list of (clause, msg)"""
    inv = perm                                   # new index of old atom a is perm[a]
    e2 = [(inv[a], inv[b]) for a, b in edges]
    t2 = [None] * n
    for a in range(n):
        t2[inv[a]] = types[a]
    ang, dih = ref_terms(n, e2)
    bonds = [tuple(x) for x in e2]; angles = list(ang); dihedrals = list(dih)
    if pres == 1:
        bonds = [b[::-1] for b in bonds][::-1]; angles = [a[::-1] for a in angles][::-1]; dihedrals = [d[::-1] for d in dihedrals][::-1]
    elif pres == 2:
        bonds = bonds[1:] + bonds[:1]; angles = angles[1:] + angles[:1]; dihedrals = dihedrals[1:] + dihedrals[:1]
    ex = None if exclude is None else set(inv[a] for a in exclude)
    els = [t[0:2].replace('_', '') for t in t2]
    atoms = Atoms(elements=els, positions=[(1.5 * i, 0.1 * i * i, 0) for i in range(n)], bonds=bonds, bond_types=[0] * len(bonds),
                  angles=angles, angle_types=[0] * len(angles), dihedrals=dihedrals, dihedral_types=[0] * len(dihedrals))
    M = collections.Counter(canon((d[1], d[2])) for d in dihedrals)
    inside = (lambda t, k: ex is not None and len(ex) >= k and set(t) <= ex)
    exp_b = [b for b in bonds if not inside(b, 2)]
    exp_a = [a for a in angles if not inside(a, 3)]
    exp_d0 = [d for d in dihedrals if not inside(d, 4)]
    dinfo = [(d, min(seq, seq[::-1]), M[canon((d[1], d[2]))]) for d in exp_d0 for seq in [tuple(t2[x] for x in d)]]
    dpar = [tors(seq, m) for _, seq, m in dinfo]
    unsupported = any(p == 'unsupported' for p in dpar)
    exp_d = [(d, seq, m, p) for (d, seq, m), p in zip(dinfo, dpar) if p is not None]
    bad = []
    out['evals'] += 3; out['compared'] += 1
    ex0 = None if ex is None else set(ex)
    fns = [ru.assign_bond_types, ru.assign_angle_types, ru.assign_dihedral_types]
    for oi in order:            # ONE exclusion set object for all three calls, in the given order
        _, e = call(fns[oi], atoms, t2, exclude=ex)
        if oi == 2:
            err = e
        elif e:
            return [('typing-exc', '%s raised %r' % (fns[oi].__name__, e[0]))]
    if ex0 is not None and ex != ex0:
        bad.append(('exclusion-set-modified', 'the assign_*_types calls (order %r) changed the exclusion set they were given: %r -> %r' % ([fns[o].__name__ for o in order], sorted(ex0), sorted(ex))))
    if unsupported:
        if not err:
            bad.append(('dihedral-unsupported', 'a torsion without a defined UFF case was typed instead of being refused'))
        exp_d = None
    elif err:
        return [('typing-exc', 'assign_dihedral_types raised %r' % (err[0],))]

    def check_kind(kind, got_tups, got_types, table, exp, seqs, numeric, extra=None):
        got_tups = [tuple(int(x) for x in t) for t in got_tups]
        if got_tups != [tuple(t) for t in exp]:
            bad.append((kind + '-set', '%ss after typing are %r, expected %r (exclude=%r)' % (kind, got_tups, exp, ex))); return
        got_types = [int(x) for x in got_types]
        if len(got_types) != len(exp) or any(not (0 <= t < len(table)) for t in got_types):
            bad.append((kind + '-types', '%s type ids %r do not fit the table of %d entries' % (kind, got_types, len(table)))); return
        part = {}
        for idx, (t, key) in enumerate(zip(got_types, seqs)):
            d = check_coeff(str(table[t]), key[0] if extra else key, numeric[idx], extra[idx] if extra else '')
            if d:
                bad.append((kind + '-coeff', '%s %r of UFF sequence %r has coefficients %r: %s' % (kind, exp[idx], key, str(table[t]), d)))
            if part.setdefault(t, key) != key:
                bad.append((kind + '-partition', '%ss with different sequences %r and %r share type %d' % (kind, part[t], key, t)))
        byseq = {}
        for t, key in zip(got_types, seqs):
            if byseq.setdefault(key, t) != t:
                bad.append((kind + '-partition', '%ss with the same sequence %r have different types %d and %d' % (kind, key, byseq[key], t)))

    bseq = [min(tuple(t2[x] for x in b), tuple(t2[x] for x in b)[::-1]) for b in exp_b]
    check_kind('bond', atoms.bonds, atoms.bond_types, atoms.bond_type_coeffs, exp_b, bseq, [fmt_bond(s) for s in bseq])
    aseq = [min(tuple(t2[x] for x in a), tuple(t2[x] for x in a)[::-1]) for a in exp_a]
    check_kind('angle', atoms.angles, atoms.angle_types, atoms.angle_type_coeffs, exp_a, aseq, [fmt_angle(s) for s in aseq])
    if exp_d is not None:
        check_kind('dihedral', atoms.dihedrals, atoms.dihedral_types, atoms.dihedral_type_coeffs, [d for d, _, _, _ in exp_d],
                   [(seq, m) for _, seq, m, _ in exp_d], ['%s %10.6f %d %d' % p for _, _, _, p in exp_d], extra=['M=%d' % m for _, _, m, _ in exp_d])
    # retyping of atoms + pair coefficients
    _, err = call(ru.retype_atoms_from_uff_types, atoms, list(t2))
    if err:
        bad.append(('retype', 'retype_atoms_from_uff_types raised %r' % (err[0],)))
    else:
        for i in range(n):
            t = int(atoms.atom_types[i]); el = t2[i][0:2].replace('_', '')
            if not (0 <= t < len(atoms.atom_type_labels)) or str(atoms.atom_type_labels[t]) != t2[i] or str(atoms.atom_type_elements[t]) != el or abs(float(atoms.atom_type_masses[t]) - ATOMIC_MASSES[el]) > 1e-12:
                bad.append(('retype', 'atom %d of UFF type %s resolves to label %r element %r mass %r' % (i, t2[i], atoms.atom_type_labels[t] if t < len(atoms.atom_type_labels) else None,
                            atoms.atom_type_elements[t] if t < len(atoms.atom_type_elements) else None, atoms.atom_type_masses[t] if t < len(atoms.atom_type_masses) else None))); break
        if len(set(str(x) for x in atoms.atom_type_labels)) != len(atoms.atom_type_labels):
            bad.append(('retype', 'type labels are not unique: %r' % (list(atoms.atom_type_labels),)))
        _, err = call(ru.assign_pair_coeffs, atoms)
        if err:
            bad.append(('retype', 'assign_pair_coeffs raised %r' % (err[0],)))
        else:
            for t, lab in enumerate(atoms.atom_type_labels):
                exp = '%10.6f %10.6f # %s' % (*REF.pair(REF.K.index(str(lab))), lab)
                if t >= len(atoms.pair_coeffs) or str(atoms.pair_coeffs[t]) != exp:
                    bad.append(('retype', 'pair coefficients of %s are %r, expected %r' % (lab, atoms.pair_coeffs[t] if t < len(atoms.pair_coeffs) else None, exp))); break
    return bad


def large_case(i):
    """(n, edges, types, exclude): structures beyond the small bound"""
    K = [k for k in REF.K if k != 'Du' and k[0:2].replace('_', '') in ATOMIC_MASSES]
    if i == 0:
        # 400 disconnected 4-atom chains a-C_3-C_3-d / a-C_1-C_3-d with all-different end-type pairs: > 257 dihedral types,
        # undefined (sp centre) torsion types first seen early, in the middle and at the very end
        edges = []; types = []
        L = len(K)
        for c in range(400):
            b = 4 * c; edges += [(b, b + 1), (b + 1, b + 2), (b + 2, b + 3)]
            centre = 'C_1' if c in (50, 300, 340, 399) else 'C_3'
            types += [K[c % L], centre, 'C_3', K[(7 * c + 3 + 11 * (c // L)) % L]]
        seqs = {min(t, t[::-1]) for t in (tuple(types[4 * c:4 * c + 4]) for c in range(400))}
        assert len(seqs) > 380, len(seqs)
        return 4 * 400, edges, types, None
    if i == 1:
        # one C_3 six-ring plus 160 diatomic fragments; a large, sparse exclusion set that touches no ring atom
        edges = [(j, (j + 1) % 6) for j in range(6)] + [(6 + 2 * j, 7 + 2 * j) for j in range(160)]
        types = ['C_3'] * 6 + ['C_3', 'H_'] * 160
        return 326, edges, types, list(range(6, 316, 13)) + [7, 8]
    # a long alkane-like chain of 300 atoms with methyl-like branches: many terms, exclusion of a contiguous block
    edges = [(j, j + 1) for j in range(199)] + [(j, 200 + j) for j in range(100)]
    types = ['C_3'] * 200 + ['H_'] * 100
    return 300, edges, types, list(range(50, 120))


def run(sc, ctx):
    out = dict(evals=0, compared=0, violations=[], outcomes={}, states=0, nontrivial=0)
    oc = out['outcomes']
    if sc['kind'] == 'history':
        import itertools as _it
        if sc['h'] == 0:
            # one exclusion set object through all three typing calls, in every call order, on a structure with small excluded fragments
            edges = [(0, 1), (1, 2), (2, 3), (1, 4), (5, 6), (6, 7), (8, 9), (10, 11), (11, 12), (12, 13)]
            types = ['H_', 'C_3', 'C_3', 'H_', 'H_', 'H_', 'O_3', 'H_', 'C_3', 'O_3', 'N_3', 'C_3', 'C_3', 'O_3']; n = 14
            for ex in ([5, 6, 7], [8, 9], [5, 6, 7, 8, 9], [0, 1, 2, 3], [0, 1, 2, 3, 5, 6, 7, 8, 9], [10, 11, 12, 13, 8, 9], list(range(14)), [4, 5, 6, 7]):
                for order in _it.permutations(range(3)):
                    for pres in (0, 1):
                        bad = run_typing(n, edges, types, ex, pres, list(range(n)), sc, out, order=order)
                        out['states'] += 1
                        for clause, msg in bad[:2]:
                            out['violations'].append(viol('typing', 'history:' + clause, 'typing calls in the order %r with one exclusion set object %r: %s' % (order, ex, msg[:500]), sc))
            oc['one exclusion set, every call order'] = 1; out['nontrivial'] += 1
        elif sc['h'] == 1:
            # a bond list object that is enumerated, edited in place and enumerated again (list and array)
            for n, e0, edits in ((6, [(0, 1), (1, 2), (2, 3)], [('append', (3, 4)), ('append', (4, 5)), ('set', 0, (5, 1)), ('append', (0, 3))]),
                                 (5, [(0, 1), (1, 2), (2, 3), (3, 4)], [('set', 3, (1, 4)), ('set', 0, (3, 0)), ('pop', 1)]),
                                 (7, [(0, 1), (0, 2), (0, 3)], [('append', (3, 4)), ('set', 1, (4, 5)), ('append', (5, 6)), ('pop', 0)])):
                for container in ('list', 'array'):
                    bl = [tuple(x) for x in e0]
                    arr = np.array(bl) if container == 'array' else bl
                    for step in range(len(edits) + 1):
                        cur = [tuple(int(v) for v in row) for row in (arr.tolist() if container == 'array' else arr)]
                        ea, ed = ref_terms(n, cur)
                        ga, err = call(ru.calc_angles, arr); gd, err2 = call(ru.calc_dihedrals, arr)
                        out['evals'] += 2; out['compared'] += 1; out['states'] += 1
                        if err or err2:
                            out['violations'].append(viol('enumeration', 'history-exc', 'calc_angles / calc_dihedrals raised %r' % ((err or err2)[0],), sc)); break
                        if sorted(canon(tuple(int(v) for v in t)) for t in ga) != ea or sorted(canon(tuple(int(v) for v in t)) for t in gd) != ed:
                            out['violations'].append(viol('enumeration', 'history:edited-bond-list', 'bond %s edited in place %d time(s), now %r: angles %r (expected %r), dihedrals %r (expected %r)' % (
                                container, step, cur, sorted(canon(tuple(int(v) for v in t)) for t in ga), ea, sorted(canon(tuple(int(v) for v in t)) for t in gd), ed), sc)); break
                        if step < len(edits):
                            ed_ = edits[step]
                            if container == 'array' and ed_[0] != 'set':
                                continue        # arrays are edited element-wise only
                            if ed_[0] == 'append':
                                arr.append(ed_[1])
                            elif ed_[0] == 'set':
                                arr[ed_[1]] = ed_[2]
                            else:
                                arr.pop(ed_[1])
            oc['bond list edited in place'] = 1; out['nontrivial'] += 1
        else:
            # typing the same Atoms object twice, and two structures one after the other with the same type list object
            n, edges, types, ex = 6, [(0, 1), (1, 2), (2, 3), (3, 4), (4, 5)], ['H_', 'C_3', 'C_2', 'C_2', 'O_3', 'H_'], None
            for rep in range(3):
                bad = run_typing(n, edges, types, ex, rep % 2, list(range(n)), sc, out)
                out['states'] += 1
                for clause, msg in bad[:2]:
                    out['violations'].append(viol('typing', 'history:' + clause, 'typing call %d of 3 in one process on equal structures: %s' % (rep + 1, msg[:500]), sc))
            oc['typing repeated'] = 1; out['nontrivial'] += 1
        return out
    if sc['kind'] == 'large':
        n, edges, types, ex = large_case(sc['case'])
        for pres in (0, 1):
            bad = run_typing(n, edges, types, ex, pres, list(range(n)), sc, out)
            out['states'] += 1
            for clause, msg in bad[:2]:
                out['violations'].append(viol('typing', 'large:' + clause, 'structure of %d atoms / %d bonds (large case %d, presentation %d): %s' % (n, len(edges), sc['case'], pres, msg[:600]), sc))
        oc['large typing'] = 1; out['nontrivial'] += 2
        return out
    if sc['kind'] == 'enum':
        n = sc['n']
        for edges in graphs(n)[sc['lo']:sc['hi']]:
            ea, ed = ref_terms(n, edges)
            for pname, bl in presentations(edges):
                ga, err = call(ru.calc_angles, np.array(bl)); gd, err2 = call(ru.calc_dihedrals, np.array(bl))
                out['evals'] += 2; out['compared'] += 2; out['states'] += 1
                if err or err2:
                    out['violations'].append(viol('enumeration', 'exc', 'calc_angles/calc_dihedrals raised %r for bonds %r' % ((err or err2)[0], bl), sc)); continue
                ga = sorted(canon(t) for t in np.asarray(ga).reshape(-1, 3)); gd = sorted(canon(t) for t in np.asarray(gd).reshape(-1, 4))
                if ga != ea:
                    out['violations'].append(viol('enumeration', 'angles', 'bonds %r (%s): angles %r, definition gives %r' % (bl, pname, ga, ea), sc))
                if gd != ed:
                    out['violations'].append(viol('enumeration', 'dihedrals', 'bonds %r (%s): dihedrals %r, definition gives %r' % (bl, pname, gd, ed), sc))
                out['nontrivial'] += 1 if ed else 0
            key = 'n=%d angles=%d dihedrals=%d' % (n, len(ea), len(ed))
            oc[key] = oc.get(key, 0) + 1
        if sc['n'] == 4 and sc['lo'] == 0:
            e = graphs(4)[10]
            out['samples'] = [dict(kind='enumeration', bonds=e, angles=ref_terms(4, e)[0], dihedrals=ref_terms(4, e)[1])]
        return out
    n = sc['n']; edges = graphs(n)[sc['g']]
    thorough = ctx['tier'] == 'thorough'
    if n <= 4:
        assigns = [(TYPES[sc['t0']],) + rest for rest in itertools.product(TYPES, repeat=n - 1)]
        excl = [None] + [list(s) for r in range(1, n + 1) for s in itertools.combinations(range(n), r)]
    else:
        assigns = cover5(); excl = [None, [0, 1, 2, 3], [0, 1, 2, 3, 4]]
        if not thorough and len(edges) != 4:
            assigns = assigns[:-243]          # quick tier: the 3-type block only on the 125 labelled trees
    ident = list(range(n))
    if n <= 3:
        perms = [list(p) for p in itertools.permutations(range(n))]
    else:
        perms = [ident, ident[::-1], ident[1:] + ident[:1]] + ([[1, 0] + ident[2:], [ident[-1]] + ident[:-1]] if thorough else [])
    for types in assigns:
        cases = [(ex, 0, ident) for ex in excl] + [(None, p, ident) for p in (1, 2)] + [(None, 0, pm) for pm in perms[1:]] + ([(excl[-1], 1, perms[1])] if len(excl) > 1 else [])
        if n == 5 and set(types) <= {'H_', 'C_3', 'O_3'} and types not in cover5()[:-243]:
            cases = [(None, 0, ident), (None, 1, ident)]
        for ex, pres, perm in cases:
            bad = run_typing(n, edges, types, ex, pres, perm, sc, out)
            out['states'] += 1
            for clause, msg in bad[:2]:
                if len(out['violations']) < 20:
                    out['violations'].append(viol('typing', clause, 'bonds %r UFF types %r exclude=%r presentation=%d renaming=%r: %s' % (edges, list(types), ex, pres, perm, msg), sc,
                                                  bonds=edges, types=list(types), exclude=ex, presentation=pres, renaming=perm))
        nd = len(ref_terms(n, edges)[1])
        key = 'typing n=%d dihedrals=%d' % (n, nd)
        oc[key] = oc.get(key, 0) + 1
        out['nontrivial'] += len(cases) if nd else 0
    if n == 4 and sc['g'] == 10 and sc['t0'] == 1:
        out['samples'] = [dict(kind='typing', bonds=edges, types=list(assigns[7]), exclusion_sets=len(excl), presentations=3, renamings=len(perms))]
    return out
