"""C20 - the command line does exactly load, replicate, find/replace, save.

E1 over option sets, in-process through click.testing.CliRunner: every documented option in
{absent, non-default value} (all subsets of <= 2 options quick / <= 3 thorough, plus everything on) x
input format {cif, lmpdat, cml + --extract-uc} x output {lmpdat, cif} x mode {find + replace, find
only, neither} x generated structures, plus the documented example command lines on the real files;
E2: every draw answer is explored on the CLI side and replayed identically on the API side.
Oracle (differential CLI vs API): a reference driver performs load -> charges -> replicate -> minimum
image replication -> pair potentials -> replace (same options) -> save through the Python API; the output
files must be byte-identical; the keyword arguments that reach find / replace are recorded at the module
seam and must equal the option values; find-only: printed count and tuples equal the API's, output =
input structure.
"""
import io, os, itertools, tempfile, shutil
import numpy as np
from mc.checks.common import *
from mc.checks.findlib import explorer, draw_bound
from mc.engine.choices import Divergence
from mc.alphabet import geom as G
from mc.ref.geom import wrap
from mc.ref.cml import write_cml
from mc.engine.run import REPO
import mofun
import mofun.cli.mofun_cli as CLI
from mofun import find_pattern_in_structure, replace_pattern_in_structure
from mofun.rough_uff import assign_pair_coeffs
from click.testing import CliRunner

ENGINE = 'E1+E2'
OPTS = ['atol', 'fraction', 'hints', 'replicate', 'mic', 'charges', 'pp', 'framework_element']
VALUES = dict(atol=[0.3, 0.01], fraction=[0.5, 0.25], hints=[(0, 2, 1), (1, None, 0), (None, 0, None)], replicate=[(2, 1, 1), (1, 2, 2)], mic=[4.5, 5.0], charges=[1], pp=[1], framework_element=['Xe'])
STRUCTS = ['orthorhombic: 2 exact + 1 perturbed + 1 noisy copy of C-N-O', 'triclinic (LAMMPS oriented): 2 copies of CH4 (tie-break draws)', 'cubic: 4 single Zr sites', '298 atoms: He grid + 4 Zr sites']
MODES = ['find+replace', 'find only', 'neither']
INPUTS = ['cif', 'lmpdat', 'cml+extract-uc']
OUTPUTS = ['lmpdat', 'cif']
SPY = {}


def _spy(name, real):
    def f(*a, **k):
        SPY.setdefault(name, []).append({kk: (v if not hasattr(v, 'positions') else '<Atoms>') for kk, v in k.items()})
        return real(*a, **k)
    return f


CLI.replace_pattern_in_structure = _spy('replace', replace_pattern_in_structure)      # harness-side seam: the CLI looks the names up in its module
CLI.find_pattern_in_structure = _spy('find', find_pattern_in_structure)


def structure(si, seed):
    if si == 0:
        cell = np.diag([9.0, 9.5, 11.0]); el, pp = G.pattern('CNO')
        sp = G.generic_rotations(seed, 2)
        pos = [pp + np.array([0.4, 0.5, 0.6]), (sp[0] @ pp.T).T + np.array([8.6, 4.0, 10.7]), (sp[1] @ pp.T).T + np.array([4.0, 8.0, 5.0]), pp + np.array([3.0, 1.0, 3.0])]
        pos[2] = pos[2] + np.array([[0, 0, 0], [0, 0, 0], [0.12, 0.0, 0.0]])                   # found with atol 0.3 only
        pos[3] = pos[3] + np.array([[0, 0, 0], [0.02, 0, 0], [0.0, 0.02, 0.0]])                # lost with atol 0.01
        els = el * 4 + ['Kr', 'Ar', 'S', 'B']; P = np.vstack(pos + [np.array([[6.0, 2.0, 8.0], [2.0, 6.0, 9.0], [7.5, 7.5, 1.5], [1.0, 8.5, 5.5]])])      # S, B: one-letter elements that prefix other UFF keys
        pname = 'CNO'
    elif si == 1:
        cell = G.TRI_P.copy(); el, pp = G.pattern('CH4')
        sp = G.generic_rotations(seed, 2)
        P = np.vstack([(sp[0] @ pp.T).T + np.array([0.3, 0.2, 0.4]), pp + np.array([0.55, 0.5, 0.5]) @ cell, np.array([[0.25, 0.75, 0.25]]) @ cell])
        els = el * 2 + ['Kr']; pname = 'CH4'
    elif si == 3:
        # more than 256 atoms: 6x7x7 grid of He + 4 Zr sites
        cell = np.diag([18.0, 21.0, 21.0]); g = lambda n: np.arange(n) * 3.0 + 1.5
        he = np.array(np.meshgrid(g(6), g(7), g(7))).T.reshape(-1, 3)
        P = np.vstack([he, np.array([(3.0, 3.0, 3.0), (9.0, 12.0, 0.1), (17.9, 3.0, 12.0), (6.0, 18.0, 18.0)])]); els = ['He'] * len(he) + ['Zr'] * 4; pname = 'Zr'
    else:
        cell = np.diag([9.0, 9.0, 9.0])
        P = np.array([(0.5, 0.5, 0.5), (5.0, 0.5, 8.8), (0.5, 5.0, 4.0), (5.0, 5.0, 0.2), (2.5, 2.5, 2.5), (7.0, 7.0, 7.0)]); els = ['Zr'] * 4 + ['O', 'I']; pname = 'Zr'
    return els, wrap(P, cell), cell, pname


def replacement(pname):
    el, pp = G.pattern(pname)
    if pname == 'CNO':
        return ['C', 'N', 'S', 'F'], np.vstack([pp, pp[0] + [0.3, -0.9, 0.5]])
    if pname == 'CH4':
        return ['C', 'H', 'H', 'H', 'F'], np.vstack([pp[:4], pp[4] * 1.9])
    return ['Hf'], pp.copy()


def option_sets(tier):
    maxr = 2 if tier == 'quick' else 3
    sets = [(), ('framework_element',)]
    for r in range(1, maxr + 1):
        sets += list(itertools.combinations(OPTS[:-1], r))     # --framework-element fails on its own (known finding): not crossed with the others
    sets.append(tuple(OPTS[:-1]))        # everything that works on
    sets.append(tuple(OPTS))
    return sets


def plan(tier, seed):
    scs = []
    q = tier == 'quick'
    for oi, oset in enumerate(option_sets(tier)):
        for si in range(3):
            for ii in range(len(INPUTS)):
                for oo in range(len(OUTPUTS)):
                    for mi in range(len(MODES)):
                        if q and (oi + si + ii + oo + mi) % 2 and len(oset) == 2:
                            continue            # quick tier: pairs of options on every second combination of the other axes
                        for vi in ((0,) if q else (0, 1)):
                            scs.append(dict(opts=list(oset), vi=vi, s=si, inp=ii, out=oo, mode=mi))
    # a structure of 298 atoms (beyond 256) with the options that depend on the atom count, and input names with two dots
    for opts in ([], ['charges'], ['charges', 'fraction'], ['charges', 'pp']):
        for ii in range(len(INPUTS)):
            for mi in (0, 2):
                scs.append(dict(opts=opts, vi=0, s=3, inp=ii, out=(ii + mi) % 2, mode=mi))
    scs += [dict(example=i) for i in (range(2) if q else range(len(EXAMPLES)))]
    return dict(scenarios=scs, exhaustive=True, chunk=6,
                menus=dict(options=OPTS, values={k: [str(x) for x in v] for k, v in VALUES.items()}, option_sets='every subset of <= %d of the 7 working options, --framework-element alone, all 7, all 8' % (2 if q else 3),
                           structures=STRUCTS, inputs=INPUTS, outputs=OUTPUTS, modes=MODES, examples=[e[0] for e in EXAMPLES]),
                bounds=dict(draw_deviation_bound=draw_bound(tier)),
                rule='one scenario per (option set, value variant, structure, input, output, mode); every draw answer inside; non-trivial = at least one non-default option reaches find/replace or changes the structure',
                assumptions=['the CLI is invoked in-process through click.testing.CliRunner', 'the API driver is the sequence the documentation describes', 'option values are chosen so that a dropped wire changes the output or the recorded keyword arguments'])


EXAMPLES = [
    ('Example 1: uio66.cif -> OH linker (cif out)', ['uio66.cif', 'OUT.cif', '--find', 'uio66-linker.cml', '--replace', 'uio66-linker-oh.cml']),
    ('Example 4b step 2: metal centre -> hf2 (cif out)', ['uio66.cif', 'OUT.cif', '--find', 'uio66-metal-center-simple.cml', '--replace', 'uio66-metal-center-hf2.cml']),
    ('Example 3 step 1: parameterised metal centre (lmpdat out)', ['uio66.cif', 'OUT.lmpdat', '--find', 'uio66-metal-center.cml', '--replace', 'uio66-metal-center-parameterized.lmpdat']),
    ('Example 4b step 1: 40% of the metal centres, 2x1x1', ['uio66.cif', 'OUT.cif', '--replicate', '2', '1', '1', '--find', 'uio66-metal-center-simple.cml', '--replace', 'uio66-metal-center-hf1.cml', '--replace-fraction=0.4']),
    ('Example 2: defective linkers 10%, 2x1x1 (cif out)', ['uio66.cif', 'OUT.cif', '-f', 'uio66-linker.cml', '-r', 'uio66-linker-defective.cml', '--replicate', '2', '1', '1', '--replace-fraction=0.10']),
]
_tmp = {}


def tmpdir():
    if 'dir' not in _tmp:
        _tmp['dir'] = tempfile.mkdtemp(prefix='mofun-verif-c20-')
        import atexit
        atexit.register(shutil.rmtree, _tmp['dir'], True)
    return _tmp['dir']


def api_driver(inp, outp, find=None, repl=None, atol=5e-2, fraction=1.0, hints=(None, None, None), extract_uc=None, charges=None, replicate=None, mic=None, pp=False):
    """the documented sequence through the Python API; returns (stdout text of a find-only run | None)"""
    atoms = Atoms.load(inp)
    if extract_uc is not None:
        atoms.cell = Atoms.load(extract_uc).cell
    if charges is not None:
        atoms.charges = np.array(charges, dtype=float)
    if replicate is not None:
        atoms = atoms.replicate(replicate)
    if mic is not None and atoms.cell_is_orthorhombic():
        atoms = atoms.replicate(np.array(np.ceil(2 * mic / np.diag(atoms.cell)), dtype=int))
    if pp:
        assign_pair_coeffs(atoms, assign_atom_type_labels_from_elements=True)
    found = None
    if find is not None:
        sp = Atoms.load(find)
        if repl is not None:
            atoms = replace_pattern_in_structure(atoms, sp, Atoms.load(repl), atol=atol, axisp1_idx=hints[0], axisp2_idx=hints[1], opoint_idx=hints[2], replace_fraction=fraction)
        else:
            found = find_pattern_in_structure(atoms, sp, atol=atol)
    atoms.save(outp)
    return found


def same_file(t1, t2, ext):
    """the two files describe the same structure: identical up to the free-text title line of a LAMMPS
    data file (LAMMPS skips it) and up to comment lines of a CIF"""
    if t1 == t2:
        return True
    if ext == 'lmpdat':
        return t1.split('\n')[1:] == t2.split('\n')[1:]
    strip = lambda t: [l for l in t.split('\n') if not l.lstrip().startswith('#')]
    return strip(t1) == strip(t2)


def run_example(sc, ctx, out):
    name, args = EXAMPLES[sc['example']]
    d = tempfile.mkdtemp(prefix='ex', dir=tmpdir())
    ex_dir = os.path.join(REPO, 'docs', 'examples')
    ext = args[1].split('.')[-1]
    o1 = os.path.join(d, 'cli.' + ext); o2 = os.path.join(d, 'api.' + ext)
    argv = [os.path.join(ex_dir, a) if a.endswith(('.cif', '.cml', '.lmpdat')) and not a.startswith('OUT') else a for a in args]
    argv[1] = o1
    kw = dict(find=None, repl=None)
    it = iter(range(len(args)))
    for i in it:
        a = args[i]
        if a in ('--find', '-f'):
            kw['find'] = os.path.join(ex_dir, args[i + 1])
        elif a in ('--replace', '-r'):
            kw['repl'] = os.path.join(ex_dir, args[i + 1])
        elif a == '--replicate':
            kw['replicate'] = tuple(int(x) for x in args[i + 1:i + 4])
        elif a.startswith('--replace-fraction='):
            kw['fraction'] = float(a.split('=')[1])
    ex = explorer(ctx)
    (res, err), trace = ex.run(lambda: call(CliRunner().invoke, CLI.mofun_cli, argv), ())
    answers = tuple(t[2] for t in trace)
    out['evals'] += 1; out['compared'] += 1
    V = lambda clause, sig, msg: out['violations'].append(viol(clause, sig, '%s: %s' % (name, msg), sc, argv=args))
    if err or res.exception is not None:
        V('cli-runs', 'example-exc:%s' % type(res.exception if not err else err[0]).__name__, 'the command line raised %r' % (res.exception if not err else err[0],)); shutil.rmtree(d, True); return
    try:
        (r2, err2), _ = ex.run(lambda: call(api_driver, argv[0], o2, **kw), answers)
    except Divergence as e:
        V('same-structure', 'example-draws-diverge', 'the API sequence does not reach the same random draws as the command line (%s)' % e); shutil.rmtree(d, True); return
    if err2:
        V('api-runs', 'example-api-exc', 'the API sequence raised %r' % (err2[0],))
    elif not same_file(open(o1).read(), open(o2).read(), ext):
        V('same-structure', 'example-differs', 'the file written by the command line differs from the file written through the API with the same draws')
    out['outcomes']['example ok'] = 1; out['nontrivial'] = 1
    shutil.rmtree(d, True)


def run(sc, ctx):
    out = dict(evals=0, compared=0, violations=[], outcomes={}, hashes={h64(sc)}, nontrivial=0)
    if 'example' in sc:
        run_example(sc, ctx, out); return out
    els, P, cell, pname = structure(sc['s'], ctx['seed'])
    d = tempfile.mkdtemp(prefix='s', dir=tmpdir())
    try:
        return run_generated(sc, ctx, out, els, P, cell, pname, d)
    finally:
        shutil.rmtree(d, True)


def run_generated(sc, ctx, out, els, P, cell, pname, d):
    n = len(els)
    base = Atoms(elements=els, positions=P, cell=cell.copy(), charges=[0.05 * (i + 1) for i in range(n)], groups=[i % 3 for i in range(n)])
    inp = INPUTS[sc['inp']]; argv = []; kw = {}
    if inp == 'cif':
        ipath = os.path.join(d, 'in.v1.2.cif' if sc['s'] % 2 else 'in.cif'); base.save(ipath)
    elif inp == 'lmpdat':
        ipath = os.path.join(d, 'in.opt.lmpdat' if sc['s'] % 2 else 'in.lmpdat'); base.save(ipath)
    else:
        ipath = os.path.join(d, 'in.frag.cml' if sc['s'] % 2 else 'in.cml')
        open(ipath, 'w').write(write_cml(['a%d' % (i + 1) for i in range(n)], els, [tuple(float(x) for x in p) for p in P], [(0, 1)]))
        uc = os.path.join(d, 'uc.lmpdat'); Atoms(elements=['He'], positions=[(0, 0, 0)], cell=cell.copy()).save(uc)
        argv += ['--extract-uc', uc]; kw['extract_uc'] = uc
    ext = OUTPUTS[sc['out']]
    o1 = os.path.join(d, 'cli.' + ext); o2 = os.path.join(d, 'api.' + ext)
    pel, pp = G.pattern(pname)
    fpath = os.path.join(d, 'find.cml'); open(fpath, 'w').write(write_cml(['a%d' % (i + 1) for i in range(len(pel))], pel, [tuple(float(x) for x in p + np.array([1.5, -2.0, 0.25])) for p in pp], []))
    rel, rp = replacement(pname)
    rpath = os.path.join(d, 'repl.cml'); open(rpath, 'w').write(write_cml(['a%d' % (i + 1) for i in range(len(rel))], rel, [tuple(float(x) for x in p + np.array([1.5, -2.0, 0.25])) for p in rp], [(0, 1)] if len(rel) > 1 else []))
    mode = MODES[sc['mode']]
    if mode in ('find+replace', 'find only'):
        argv += ['--find', fpath]; kw['find'] = fpath
    if mode == 'find+replace':
        argv += ['--replace', rpath]; kw['repl'] = rpath
    vi = sc['vi']; opts = sc['opts']
    # --mic: 4.5 (2*mic is exactly the cell length) on its own, 5.0 (which needs copies, so that the order of --replicate and --mic matters) next to --replicate
    val = lambda o: VALUES[o][(vi + (1 if o == 'mic' and 'replicate' in opts else 0)) % len(VALUES[o])]
    expect_kw = dict(atol=5e-2)
    if 'atol' in opts:
        argv += ['--atol', str(val('atol'))]; kw['atol'] = val('atol'); expect_kw['atol'] = val('atol')
    if 'fraction' in opts:
        argv += ['-p', str(val('fraction'))]; kw['fraction'] = val('fraction')
    if 'hints' in opts and len(pel) > 2:
        h = val('hints'); kw['hints'] = h
        for flag, v in zip(('-ap1', '-ap2', '-op'), h):
            if v is not None:
                argv += [flag, str(v)]
    if 'replicate' in opts:
        r = val('replicate'); argv += ['--replicate'] + [str(x) for x in r]; kw['replicate'] = r
    if 'mic' in opts:
        argv += ['--mic', str(val('mic'))]; kw['mic'] = val('mic')
    nrep = 1
    if 'charges' in opts:
        q = [round(-0.3 + 0.07 * i, 4) for i in range(n)]
        qpath = os.path.join(d, 'charges.txt'); open(qpath, 'w').write('\n'.join(str(x) for x in q) + '\n\n')
        argv += ['-q', qpath]; kw['charges'] = q
    if 'pp' in opts:
        argv += ['--pp']; kw['pp'] = True
    fe = 'framework_element' in opts
    if fe:
        argv += ['--framework-element', 'Xe']
    argv = [ipath, o1] + argv
    ex = explorer(ctx)
    desc = dict(options=opts, values={o: str(val(o)) for o in opts}, structure=STRUCTS[sc['s']], input=inp, output=ext, mode=mode)

    def cli():
        SPY.clear()
        for p in (o1,):
            if os.path.exists(p):
                os.remove(p)
        r, err = call(CliRunner().invoke, CLI.mofun_cli, argv)
        return r, err, {k: list(v) for k, v in SPY.items()}, (open(o1).read() if os.path.exists(o1) else None)
    nd = 0
    for answers, (res, err, spy, text1) in ex.explore(cli, bound=draw_bound(ctx['tier']), cap=16 if ctx['tier'] == 'quick' else 60, observe=lambda r: repr((r[3], r[0] and r[0].output, r[0] and repr(r[0].exception)))):
        out['evals'] += 1; out['compared'] += 1; nd += 1
        V = lambda clause, sig, msg: out['violations'].append(viol(clause, sig, '%s [%s, draws %r]' % (msg, desc, tuple(answers)), sc, argv=[a.replace(d, '.') for a in argv], answers=list(answers)))
        exc = err[0] if err else res.exception
        if exc is not None and not isinstance(exc, SystemExit):
            sig = 'exc:%s' % type(exc).__name__
            if fe and isinstance(exc, AttributeError) and 'atom_groups' in str(exc):
                sig = 'framework-element:AttributeError'
            V('cli-runs', sig, 'the command line raised %r' % (exc,)); continue
        if res.exit_code != 0:
            V('cli-runs', 'exit-code', 'exit code %r, output %r' % (res.exit_code, res.output[-300:])); continue
        if fe:
            V('cli-runs', 'framework-element:no-effect-oracle', 'no oracle for --framework-element on this output'); continue
        try:
            (found, err2), _ = ex.run(lambda: call(api_driver, ipath, o2, **kw), answers)
        except Divergence as e:
            V('same-structure', 'draws-diverge', 'the API sequence does not reach the same random draws as the command line (%s): the two do not perform the same operations' % e); continue
        if err2:
            V('api-runs', 'api-exc:' + exc_sig(err2), 'the API sequence raised %r' % (err2[0],)); continue
        text2 = open(o2).read()
        if text1 is None:
            V('same-structure', 'no-output', 'the command line wrote no output file'); continue
        if same_file(text1, text2, ext) is False:
            dl = [(x, y) for x, y in zip(text1.split('\n'), text2.split('\n')) if x != y][:3]
            V('same-structure', 'differs', 'the file written by the command line differs from the API result (%d vs %d lines; first differences %r)' % (text1.count('\n'), text2.count('\n'), dl))
        # every documented option reaches the operation it names
        if mode == 'find+replace':
            calls = spy.get('replace', [])
            exp = dict(atol=kw.get('atol', 5e-2), axisp1_idx=kw.get('hints', (None,) * 3)[0], axisp2_idx=kw.get('hints', (None,) * 3)[1], opoint_idx=kw.get('hints', (None,) * 3)[2], replace_fraction=kw.get('fraction', 1.0))
            if len(calls) != 1 or any(calls[0].get(k, 'MISSING') != v for k, v in exp.items()):
                V('options-reach', 'replace-kwargs', 'replace was called with %r, the options say %r' % (calls, exp))
        elif mode == 'find only':
            calls = spy.get('find', [])
            if len(calls) != 1 or calls[0].get('atol') != kw.get('atol', 5e-2):
                V('options-reach', 'find-kwargs', 'find was called with %r, the options say atol=%r' % (calls, kw.get('atol', 5e-2)))
            exp_out = 'Found %d instances of the search_pattern in the structure\n%s\n' % (len(found), found)
            if exp_out not in res.stdout:
                V('find-only', 'stdout', 'printed %r, the API reports %r' % (res.stdout[-300:], exp_out))
            (_, e3), _ = ex.run(lambda: call(api_driver, ipath, o2 + '.plain', **{k: v for k, v in kw.items() if k not in ('find', 'repl', 'atol', 'fraction', 'hints')}), ())
            if not e3 and not same_file(open(o2 + '.plain').read(), text1, ext):
                V('find-only', 'modified', 'a find-only run did not write the structure unmodified')
    out['outcomes']['%s draws=%d opts=%d' % (mode, nd, len(opts))] = 1
    if opts:
        out['nontrivial'] = 1
    if sc['opts'] == ['atol', 'replicate'] and sc['s'] == 0 and sc['mode'] == 0 and sc['inp'] == 1 and sc['out'] == 0:
        out['samples'] = [dict(argv=[a.replace(d, '.') for a in argv], description=desc)]
    return out
