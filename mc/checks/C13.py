"""C13 - LAMMPS data files round-trip and mean what the structure says.

E1 over structure shapes: cell x per-kind (number of types, number of terms) x tables present /
absent x coefficient-string menu x charges x coordinates x labels x atom types x atom style x
save/load route.  Oracles: (a) an independent read_data-style reader (mc/ref/lammps.py) must read the
structure's content from the written text; (b) mofun's reader reproduces it; (c) save(load(.)) is a
fixed point after at most one normalising pass.
"""
import io, os, itertools, tempfile
import numpy as np
from mc.checks.common import *
from mc.ref import lammps as RL

ENGINE = 'E1 product'
COEFFS = ['100.5 1.3', 'harmonic  12.0   3', 'fourier 1e-3 -0.5 2', '7 # C_R N_R', 'cosine/periodic 72.5 -1 1   # C_R O_1 H_', '-3.25',
          '0.105000 3.430851 # C_R', 'class2 1.0 2.0 -3.0 4.0e+2   #  two  words', '1', 'zero',
          'class2 109.4712206 44.123456 -7.654321 -12.345678 0.987654 1.234567 1.526000 1.090000 3.141593 2.718282  # C_3 C_3 H_ (fitted, set 3, do not edit by hand)']
CELLS = [('orthorhombic', np.diag([10.0, 11, 12])), ('positive tilts', np.array([[10.0, 0, 0], [3, 11, 0], [2, 1.5, 12]])),
         ('mixed-sign tilts', np.array([[10.0, 0, 0], [-3, 11, 0], [-2, 1.5, 12]])), ('all tilts negative', np.array([[10.0, 0, 0], [-3, 11, 0], [-2, -1.5, 12]])),
         ('only yz tilted, negative', np.array([[10.0, 0, 0], [0, 11, 0], [0, -2.5, 12]])), ('tiny tilt 0.0002 (prints as 0.000200)', np.array([[15.0, 0, 0], [0, 16.0, 0], [0, 2e-4, 20.0]])), ('tilt that prints as 0.000000', np.array([[10.0, 0, 0], [1e-8, 11, 0], [0, 0, 12]])), ('no cell', None)]
KOPT = [(0, 0), (1, 1), (2, 3), (3, 1), (3, 3), (2, 0)]          # (number of types, number of terms) per kind
KSHAPES_Q = [(0, 0, 0, 0), (1, 1, 1, 1), (3, 3, 3, 3), (2, 2, 2, 2), (4, 4, 4, 4), (2, 1, 0, 4), (3, 0, 2, 1), (0, 3, 5, 0), (5, 5, 1, 2)]   # indices into KOPT
EL12 = ['H', 'C', 'N', 'O', 'F', 'Si', 'P', 'S', 'Cl', 'Zn', 'Br', 'Zr']
ATYPES = [('twelve types (two-digit type ids)', [11, 1, 9, 10], EL12, [1.00794, 12.0107, 14.0067, 15.9994, 18.9984032, 28.0855, 30.973762, 32.065, 35.453, 65.38, 79.904, 91.224]), ('two types', [0, 1, 1, 0], ['C', 'N'], [12.0107, 14.0067]), ('one type', [0, 0, 0, 0], ['C'], [12.0107]),
          ('three types, last one unused', [0, 1, 1, 0], ['C', 'N', 'O'], [12.0107, 14.0067, 15.9994]), ('non-atomic masses', [1, 0, 0, 1], ['X', 'Y'], [100.25, 3.5])]
LABELS = [('element-like', lambda els: list(els)), ('UFF-like', lambda els: [e + '_R' for e in els]), ('with blanks', lambda els: [e + ' %d' % i for i, e in enumerate(els)]),
          ('one empty label among UFF-like ones', lambda els: [('' if i == 1 else e + '_R') for i, e in enumerate(els)])]
CHARGES = [[0, 0, 0, 0], [-0.8234567, 12.5, 0, 1e-7], [1, -1, 0.5, -0.5]]
COORDS = [('inside', np.array([(1, 1, 1), (2.5, 1, 1), (2.5, 2.25, 1.125), (9.5, 10, 0.5)])), ('negative', -np.array([(1, 1, 1), (2.5, 1, 1), (2.5, 2.25, 1.125), (13.5, 1, 0.5)])),
          ('beyond the box', np.array([(11, 12, 13), (22.5, -1, 1), (2.5, 2.25, 100.125), (0, 0, 0)])),
          ('large magnitudes', np.array([(1433.5, -148.0, 0.25), (-1000.000001, 99999.5, 1.0), (2.5, 2.25, -100.125), (12345.678901, 0, 0)]))]
STYLES = ['full', 'atomic']
TUPS = {'bond': [(0, 1), (1, 2), (3, 2)], 'angle': [(0, 1, 2), (1, 2, 3), (3, 0, 1)], 'dihedral': [(0, 1, 2, 3), (3, 2, 1, 0), (1, 0, 3, 2)], 'improper': [(1, 0, 2, 3), (2, 1, 3, 0), (0, 3, 1, 2)]}


def plan(tier, seed):
    scs = []
    q = tier == 'quick'
    for ci in range(len(CELLS)):
        for ks in KSHAPES_Q:
            for tables in (1, 0):
                for co in range(len(COEFFS)):
                    for ch in (range(2) if q else range(3)):
                        for xy in ((0, 1, 3) if q else range(4)):
                            for lab in (range(2) if q else range(4)):
                                for st in range(2):
                                    at = (co + ch + xy + lab) % len(ATYPES) if q else None
                                    for a in ([at] if q else range(len(ATYPES))):
                                        scs.append(dict(cell=ci, ks=list(ks), tables=tables, co=co, ch=ch, xy=xy, lab=lab, at=a, st=st))
    if q:
        for ci in range(len(CELLS)):
            for ks in KSHAPES_Q[::2]:
                for tables in (1, 0):
                    for st in range(2):
                        for lab in (2, 3):
                            scs.append(dict(cell=ci, ks=list(ks), tables=tables, co=1, ch=1, xy=0, lab=lab, at=(ci + lab) % len(ATYPES), st=st))
    if not q:
        for ks in itertools.product(range(len(KOPT)), repeat=4):
            for ci in range(len(CELLS)):
                for tables in (1, 0):
                    for st in range(2):
                        for co in (0, 5):
                            scs.append(dict(cell=ci, ks=list(ks), tables=tables, co=co, ch=1, xy=0, lab=1, at=0, st=st))
    return dict(scenarios=scs, exhaustive=True, chunk=100,
                menus=dict(cells=[c[0] for c in CELLS], per_kind_types_terms=KOPT, kind_shapes='9 fixed combinations' + ('' if q else ' + full product 6^4'), tables=['present', 'absent'], coefficient_strings=COEFFS,
                           charges=CHARGES, coordinates=[c[0] for c in COORDS], labels=[l[0] for l in LABELS], atom_types=[a[0] for a in ATYPES], styles=STYLES,
                           routes='save_lmpdat/StringIO always; Atoms.save(path), Atoms.save(file,"lmpdat"), Atoms.load(path), Atoms.load(file,"lmpdat") on the sub-product co=0'),
                bounds=dict(atoms=4), rule='one scenario per shape tuple; non-trivial = at least two term kinds present and a tilted cell or a comment-carrying coefficient string',
                assumptions=['coefficient strings carry at most one trailing comment', 'cells are LAMMPS-oriented (lower-triangular)', 'reader mc/ref/lammps.py follows the read_data documentation'])


def build(sc):
    at_name, types, els, masses = ATYPES[sc['at']]
    labels = LABELS[sc['lab']][1](els)
    cell = CELLS[sc['cell']][1]
    kw = dict(atom_types=types, atom_type_elements=list(els), atom_type_masses=list(masses), atom_type_labels=labels, positions=COORDS[sc['xy']][1].copy(),
              charges=CHARGES[sc['ch']], groups=[0, 1, 1, 2], cell=None if cell is None else cell.copy())
    co = sc['co']
    if sc['tables']:
        kw['pair_coeffs'] = [COEFFS[(co + i) % len(COEFFS)] for i in range(len(els))]
    late = {}
    for k, ko in zip(KINDS, sc['ks']):
        nt, nm = KOPT[ko]
        t = TUPS[k][:nm]; kw[ATTR[k]] = t
        kw[k + '_types'] = [(nt - 1 - i) % max(nt, 1) for i in range(len(t))]
        if sc['tables'] and nt:
            late[k + '_type_coeffs'] = [COEFFS[(co + 1 + i) % len(COEFFS)] for i in range(nt)]
    a = Atoms(**kw)
    for k, v in late.items():
        setattr(a, k, np.array(v))
    return a


def T(a, style):
    s = io.StringIO(); a.save_lmpdat(s, atom_format=style); return s.getvalue()


_tmp = {}


def tmpdir():
    if 'dir' not in _tmp:
        _tmp['dir'] = tempfile.mkdtemp(prefix='mofun-verif-c13-')
        import atexit, shutil
        atexit.register(shutil.rmtree, _tmp['dir'], True)
    return _tmp['dir']


def states_content(a, text, style):
    """oracle (a): the independent reader must read exactly the structure's content"""
    errs = []
    try:
        hdr, box, secs = RL.read(text)
    except RL.Unreadable as e:
        return ['unreadable: %s' % e]
    errs += RL.consistency(hdr, secs, style)
    n = len(a.atom_types)
    for key, val in (('atoms', n), ('bonds', len(a.bonds)), ('angles', len(a.angles)), ('dihedrals', len(a.dihedrals)), ('impropers', len(a.impropers))):
        if hdr.get(key) != val:
            errs.append('header says %r %s, structure has %d' % (hdr.get(key), key, val))
    if hdr.get('atom types', 0) != len(a.atom_type_elements):
        errs.append('header says %r atom types, structure has %d' % (hdr.get('atom types'), len(a.atom_type_elements)))
    rc = RL.cell_of(box)
    if (a.cell is None) != (rc is None):
        errs.append('box lines present=%s but cell is %s' % (rc is not None, 'None' if a.cell is None else 'set'))
    elif rc is not None:
        if np.abs(rc - np.asarray(a.cell)).max() > 5.1e-7:
            errs.append('box/tilt give cell %r, structure has %r' % (rc.tolist(), np.asarray(a.cell).tolist()))
        if any(abs(box[k][0]) > 5.1e-7 for k in 'xyz'):
            errs.append('box does not start at the origin although positions are stored relative to it')
    ms = secs.get('Masses', [])
    for i, (tok, c) in enumerate(ms):
        if i < len(a.atom_type_masses) and (abs(float(tok[1]) - float(a.atom_type_masses[i])) > 5.1e-7 or (c or '').split() != str(a.atom_type_labels[i]).split()):
            errs.append('Masses line %d says %r # %r, structure has %r / %r' % (i + 1, tok[1], c, a.atom_type_masses[i], a.atom_type_labels[i])); break
    for i, (tok, c) in enumerate(secs.get('Atoms', [])[:n]):
        cols = [float(x) for x in tok]
        exp = [i + 1, a.groups[i] + 1, a.atom_types[i] + 1, a.charges[i], *a.positions[i]] if style == 'full' else [i + 1, a.atom_types[i] + 1, *a.positions[i]]
        if len(cols) != len(exp) or np.abs(np.array(cols) - np.array(exp, dtype=float)).max() > 5.1e-7:
            errs.append('atom line %d says %r, structure has %r' % (i + 1, tok, [float(x) for x in exp])); break
    for k, sec, csec in [('pair', None, 'Pair Coeffs')] + [(kk, s, c) for kk, s, c, _ in RL.KIND]:
        table = a.pair_coeffs if k == 'pair' else getattr(a, k + '_type_coeffs')
        got = [(t[1:], None if c is None else c.split()) for t, c in secs.get(csec, [])]
        exp = [RL.coeff_tokens(x) for x in table]
        if got != exp:
            errs.append('%s section says %r, table is %r' % (csec, got, exp))
        if sec:
            arr = np.asarray(getattr(a, ATTR[k])); ty = np.asarray(getattr(a, k + '_types'))
            got = [[int(x) for x in t] for t, _ in secs.get(sec, [])]
            exp = [[j + 1, int(ty[j]) + 1, *[int(x) + 1 for x in arr[j]]] for j in range(len(arr))]
            if got != exp:
                errs.append('%s section says %r, structure has %r' % (sec, got, exp))
            nt = hdr.get(k + ' types', 0)
            if len(ty) and nt < int(max(ty)) + 1:
                errs.append('%d %s types declared but type id %d is used' % (nt, k, int(max(ty)) + 1))
    return errs


def reload_matches(a, b, style):
    errs = []
    if list(np.asarray(b.atom_types)) != list(np.asarray(a.atom_types)):
        errs.append('atom types %r -> %r' % (list(a.atom_types), list(b.atom_types)))
    if np.asarray(b.positions).shape != np.asarray(a.positions).shape or np.abs(np.asarray(b.positions) - np.asarray(a.positions)).max() > 1e-6:
        errs.append('positions differ beyond the printed precision')
    if (a.cell is None) != (b.cell is None) or (a.cell is not None and np.abs(np.asarray(a.cell) - np.asarray(b.cell)).max() > 1e-6):
        errs.append('cell %r -> %r' % (None if a.cell is None else np.asarray(a.cell).tolist(), None if b.cell is None else np.asarray(b.cell).tolist()))
    if [str(x).split() for x in b.atom_type_labels] != [str(x).split() for x in a.atom_type_labels]:
        errs.append('labels %r -> %r' % (list(a.atom_type_labels), list(b.atom_type_labels)))
    if len(b.atom_type_masses) != len(a.atom_type_masses) or np.abs(np.asarray(b.atom_type_masses, dtype=float) - np.asarray(a.atom_type_masses, dtype=float)).max() > 1e-6:
        errs.append('masses %r -> %r' % (list(a.atom_type_masses), list(b.atom_type_masses)))
    if style == 'full':
        if list(np.asarray(b.groups)) != list(np.asarray(a.groups)):
            errs.append('groups %r -> %r' % (list(a.groups), list(b.groups)))
        if np.abs(np.asarray(b.charges) - np.asarray(a.charges)).max() > 1e-6:
            errs.append('charges %r -> %r' % (list(a.charges), list(b.charges)))
    if [RL.coeff_tokens(x) for x in b.pair_coeffs] != [RL.coeff_tokens(x) for x in a.pair_coeffs]:
        errs.append('pair coefficients %r -> %r' % (list(a.pair_coeffs), list(b.pair_coeffs)))
    for k in KINDS:
        if np.asarray(getattr(b, ATTR[k])).reshape(-1, ARITY[k]).tolist() != np.asarray(getattr(a, ATTR[k])).reshape(-1, ARITY[k]).tolist():
            errs.append('%s %r -> %r' % (ATTR[k], np.asarray(getattr(a, ATTR[k])).tolist(), np.asarray(getattr(b, ATTR[k])).tolist()))
        if list(np.asarray(getattr(b, k + '_types'))) != list(np.asarray(getattr(a, k + '_types'))):
            errs.append('%s types %r -> %r' % (k, list(getattr(a, k + '_types')), list(getattr(b, k + '_types'))))
        if [RL.coeff_tokens(x) for x in getattr(b, k + '_type_coeffs')] != [RL.coeff_tokens(x) for x in getattr(a, k + '_type_coeffs')]:
            errs.append('%s coefficients %r -> %r' % (k, list(getattr(a, k + '_type_coeffs')), list(getattr(b, k + '_type_coeffs'))))
    return errs


def run(sc, ctx):
    out = dict(evals=0, compared=0, violations=[], outcomes={}, hashes={h64(sc)}, nontrivial=0)
    style = STYLES[sc['st']]
    a = build(sc)
    before = raw_state(a)

    def bad(clause, sig, msg, **kw):
        out['violations'].append(viol(clause, sig, '%s [%s]' % (msg, {k: v for k, v in sc.items()}), sc, **kw))
    T1, err = call(T, a, style); out['evals'] += 1
    if err:
        bad('write', 'exc:' + exc_sig(err), 'save_lmpdat raised %r' % (err[0],), tb=err[1]); return out
    if raw_state(a) != before:
        bad('write', 'modified', 'save_lmpdat modified the structure')
    errs = states_content(a, T1, style); out['compared'] += 1
    for e in errs[:3]:
        bad('file-states-structure', e.split(',')[0].split(' says')[0][:40], e, text=T1)
    b, err = call(Atoms.load_lmpdat, io.StringIO(T1), atom_format=style); out['evals'] += 1
    if err:
        bad('reload', 'exc:' + exc_sig(err), 'load_lmpdat raised %r on the written text' % (err[0],), text=T1, tb=err[1]); return out
    for e in reload_matches(a, b, style)[:3]:
        bad('reload', e.split(' ')[0], 'after write+read: ' + e, text=T1)
    out['compared'] += 1
    T2, err = call(T, b, style)
    c, err2 = call(Atoms.load_lmpdat, io.StringIO(T2), atom_format=style) if not err else (None, err)
    T3, err3 = call(T, c, style) if not (err or err2) else (None, err or err2)
    out['evals'] += 3; out['compared'] += 1
    if err3:
        bad('fixed-point', 'exc:' + exc_sig(err3), 'second write/read pass raised %r' % (err3[0],), text=T1)
    elif T3 != T2:
        bad('fixed-point', 'not-fixed', 'writing the re-read structure again changes the text after the normalising pass', T2=T2, T3=T3)
    if sc['co'] == 0:
        d = tmpdir(); p = os.path.join(d, 'f%d.lmpdat' % os.getpid())
        r, err = call(a.save, p, atom_format=style)
        s = io.StringIO(); r2, err2 = call(a.save, s, 'lmpdat', atom_format=style)
        out['evals'] += 2
        if err or err2 or open(p).read() != T1 or s.getvalue() != T1:
            bad('routes', 'save-route', 'Atoms.save(path) / Atoms.save(file, "lmpdat") do not write the same text as save_lmpdat: %r' % ((err or err2 or ('', ''))[0],))
        else:
            # labels / comments with non-ASCII characters through path I/O
            u = a.copy(); u.atom_type_labels = [str(x) + '\u03bc' for x in u.atom_type_labels]
            if len(u.bond_type_coeffs):
                u.bond_type_coeffs = np.array([str(x) + ('' if '#' in str(x) else ' #') + ' \u03b5 \u00c5' for x in u.bond_type_coeffs])
            pu = os.path.join(d, 'u%d.lmpdat' % os.getpid())
            try:
                '\u03bc\u00c5'.encode(__import__('locale').getpreferredencoding(False))
                enc_ok = True
            except Exception:
                enc_ok = False
            if enc_ok:
                ru, eu = call(u.save, pu, atom_format=style)
                lu, eu2 = call(Atoms.load, pu, atom_format=style) if not eu else (None, eu)
                if eu2 or [str(x).split() for x in lu.atom_type_labels] != [str(x).split() for x in u.atom_type_labels] or [RL.coeff_tokens(x) for x in lu.bond_type_coeffs] != [RL.coeff_tokens(x) for x in u.bond_type_coeffs]:
                    bad('routes', 'non-ascii', 'labels / comments with non-ASCII characters do not survive Atoms.save(path) + Atoms.load(path): %r' % ((eu2 or ('', ''))[0] or [str(x) for x in lu.atom_type_labels],))
            p2 = os.path.join(d, 'f%d.data.txt' % os.getpid())
            r3, e3 = call(a.save, p2, 'lmpdat', atom_format=style)
            l3, e3b = call(Atoms.load, p2, 'lmpdat', atom_format=style) if not e3 else (None, e3)
            if e3b or open(p2).read() != T1 or raw_state(l3) != raw_state(b):
                bad('routes', 'explicit-filetype', 'Atoms.save / Atoms.load with an explicit filetype on a path with another extension: %r' % ((e3b or ('differs', ''))[0],))
            l1, e1 = call(Atoms.load, p, atom_format=style); l2, e2 = call(Atoms.load, io.StringIO(T1), 'lmpdat', atom_format=style)
            out['evals'] += 2
            if e1 or e2 or raw_state(l1) != raw_state(b) or raw_state(l2) != raw_state(b):
                bad('routes', 'load-route', 'Atoms.load(path) / Atoms.load(file, "lmpdat") do not give the same object as load_lmpdat: %r' % ((e1 or e2 or ('', ''))[0],))
    if sc['co'] == 0:
        # histories: the object was saved (and read) before; what is written next must state its content *now*
        def states_now(obj, what):
            t, e = call(T, obj, style); out['evals'] += 1; out['compared'] += 1
            if e:
                bad('write', 'history-exc:' + exc_sig(e), '%s: save_lmpdat raised %r' % (what, e[0])); return
            for x in states_content(obj, t, style)[:2]:
                bad('file-states-structure', 'history:' + x.split(',')[0].split(' says')[0][:30], '%s: %s' % (what, x), text=t)
        h = a.copy()
        call(T, h, style); call(lambda: list(h.elements))
        h.atom_type_labels = ['L%d_%s' % (i, str(x)[:1]) for i, x in enumerate(h.atom_type_labels)]
        states_now(h, 'saved, then the atom type labels were replaced, saved again')
        if len(h.bond_type_coeffs):
            h.bond_type_coeffs = np.array(['harmonic %d.5 1.%d # again' % (i + 2, i) for i in range(len(h.bond_type_coeffs))])
        h.positions[:] = np.asarray(h.positions) + 0.125; h.charges[:] = np.asarray(h.charges) * 2 - 0.0625
        states_now(h, 'saved, then coefficients, positions and charges were edited in place, saved again')
        if h.cell is not None:
            h.cell = np.asarray(h.cell, float) * np.array([[2.0], [1.0], [1.0]])
            states_now(h, 'saved, then the cell was doubled along a, saved again')
            r, e = call(h.replicate, (1, 2, 1))
            if not e:
                states_now(r, 'saved, replicated 1x2x1, the replica saved')
        # a load with a loose mass tolerance must not leak into a later load with the default one
        if sc['lab'] == 0 and sc['tables'] == 0:
            t_off = '\n'.join(l for l in T1.split('\n'))
            hdr, box, secs = RL.read(T1)
            lines = T1.split('\n'); i0 = lines.index('Masses') + 2; nm = len(secs.get('Masses', []))
            for j in range(nm):
                tok = lines[i0 + j].split('#')[0].split()
                lines[i0 + j] = ' %s %.6f' % (tok[0], float(tok[1]) + 0.3)
            t_off = '\n'.join(lines)
            l1, e1 = call(Atoms.load_lmpdat, io.StringIO(t_off), atom_format=style, guess_atol=0.5)
            l2, e2 = call(Atoms.load_lmpdat, io.StringIO(t_off), atom_format=style)
            out['evals'] += 2; out['compared'] += 1
            if not e2 and nm and [str(x) for x in l2.atom_type_elements] != [str(i + 1) for i in range(nm)]:
                from mofun.atomic_masses import ATOMIC_MASSES
                ms = [float(lines[i0 + j].split()[1]) for j in range(nm)]
                if all(min(abs(m - float(v)) for v in ATOMIC_MASSES.values()) >= 0.1 for m in ms):
                    bad('reload', 'history:tolerance', 'a file whose masses %r are 0.3 off every element was loaded with guess_atol=0.5 and then with the default tolerance: the second load gives elements %r instead of type numbers' % (ms, [str(x) for x in l2.atom_type_elements]))
    nk = sum(1 for ko in sc['ks'] if KOPT[ko][1])
    key = 'kinds=%d tables=%d %s %s' % (nk, sc['tables'], style, 'tilted' if sc['cell'] in (1, 2, 3, 4) else 'other')
    out['outcomes'][key] = 1
    if nk >= 2 and (sc['cell'] in (1, 2, 3, 4) or '#' in COEFFS[sc['co']]):
        out['nontrivial'] = 1
    if sc['cell'] == 2 and sc['ks'] == [5, 5, 1, 2] and sc['co'] == 4 and sc['st'] == 0 and sc['tables'] and sc['ch'] == 1 and sc['xy'] == 1 and sc['lab'] == 1:
        out['samples'] = [dict(scenario=sc, text=T1)]
    return out
