"""Histories: an object whose current content is X must behave like a freshly constructed X.

The properties quantify over structures and patterns as *values*.  An Atoms object that was searched, saved, copied,
replicated, translated or edited in place before is still a structure with some content X, and every property has to
hold for it exactly as for an object built from X a moment ago.  This module provides
  fresh(a)        - an equal object built through the constructor from copied plain data (not deepcopy / Atoms.copy, which
                    would carry private attributes along),
  WARMUPS         - read-only calls that a library may be tempted to memoise on the object or in the module,
  DISTURBANCES    - in-place edits and derivations that leave a consistent object with *other* content,
and the checks enumerate (warm-up x disturbance x operation) completely over these menus and compare the operation on
the object with the history against the same operation on fresh(object) and, where there is one, against the reference.
"""
import io
import numpy as np
from mc.checks.common import *


def fresh(a):
    """equal object from copied plain data through the constructor (None if the constructor cannot express the content)"""
    kw = dict(atom_types=[int(t) for t in a.atom_types], positions=np.array(np.asarray(a.positions, dtype=float).reshape(-1, 3), copy=True),
              charges=[float(x) for x in a.charges], groups=[int(x) for x in a.groups],
              atom_type_masses=[float(x) for x in a.atom_type_masses], atom_type_elements=[str(x) for x in a.atom_type_elements], atom_type_labels=[str(x) for x in a.atom_type_labels],
              pair_coeffs=[str(x) for x in a.pair_coeffs])
    if a.cell is not None:
        kw['cell'] = np.array(np.asarray(a.cell, dtype=float), copy=True)
    for k in KINDS:
        kw[ATTR[k]] = [tuple(int(x) for x in row) for row in np.asarray(getattr(a, ATTR[k])).reshape(-1, ARITY[k])]
        kw[k + '_types'] = [int(x) for x in getattr(a, k + '_types')]
        kw[k + '_type_coeffs'] = [str(x) for x in getattr(a, k + '_type_coeffs')]
        labels = list(getattr(a, 'extra_%s_labels' % k))
        if labels:
            kw['extra_%s_labels' % k] = labels
            kw['extra_%s_fields' % k] = [tuple(str(v) for v in row) for row in np.asarray(getattr(a, 'extra_%s_fields' % k)).reshape(-1, len(labels))]
    labels = list(a.extra_atom_labels)
    if labels:
        kw['extra_atom_labels'] = labels
        kw['extra_atom_fields'] = [tuple(str(v) for v in row) for row in np.asarray(a.extra_atom_fields).reshape(-1, len(labels))]
    if len(kw['atom_types']) == 0 and not any(len(kw[k + '_type_coeffs']) for k in KINDS) and not kw['atom_type_elements']:
        return Atoms(**({'cell': kw['cell']} if 'cell' in kw else {}))
    b, err = call(Atoms, **kw)
    if err or raw_state(b) != raw_state(a):
        return None          # contents the constructor cannot express (e.g. all atoms deleted, tables kept): no fresh equivalent
    return b


def wrap_in_place(s, v):
    """shift every atom by v and wrap back into the cell, writing into the existing positions array"""
    cell = np.asarray(s.cell, float); f = (np.asarray(s.positions, float) + np.asarray(v, float)) @ np.linalg.inv(cell)
    f = f - np.floor(f); f[f >= 1.0] = 0.0
    s.positions[:] = f @ cell
