"""C05 - inserted atoms land where the replacement pattern says, modulo the lattice.

E1 over all CELLS (orthorhombic, both tilt signs, arbitrarily oriented) x patterns (incl. symmetric
and collinear) x poses x boundary-crossing placements x inserting (search, replacement) pairs x
replace_all; E2 over the draws; plus the joint-motion relation (search and replacement moved together).
Oracle per replaced match: [search coords || replacement-only coords] must fit, by one proper rigid
motion (Kabsch), onto [matched positions || inserted positions at the lattice image nearest to the
prediction] with max deviation <= c'*eps + 1e-6 (eps = measured deviation of the matched atoms, c' the
amplification constant with levers extended to the replacement); every inserted atom has fractional
coordinates in [0,1]; moving both patterns jointly does not change the result (mod lattice).
"""
import numpy as np
from scipy.spatial.transform import Rotation as R
from mc.checks.replacelib import *
from mc.ref.geom import subset_rmsd_bound

ENGINE = 'E1+E2'
PATS = ['Zr', 'CN', 'CC', 'OCO', 'HCN', 'CNO', 'BF3', 'CH4', 'CHHB']


def plan(tier, seed):
    q = tier == 'quick'
    scs = []
    poses = [0, 1, 4] if q else [0, 1, 2, 3, 4, 5]
    faces = [P(0.03, 0.5, 0.5), P(0.5, 0.03, 0.5), P(0.5, 0.5, 0.03), P(0.97, 0.5, 0.5), P(0.5, 0.97, 0.5), P(0.5, 0.5, 0.97)]      # one face crossed, everything else mid-cell
    places = [P(0.97, 0.03, 0.97), P(0.03, 0.97, 0.5), faces[0], faces[4]] if q else [P(*c) for c in G.CORNERS] + [P(0.5, 0.5, 0.5), P(0.0, 0.0, 0.0)] + faces
    for ci in range(len(G.CELLS)):
        for pn in PATS:
            names = [p[0] for p in pairs(pn)]
            for pi in poses:
                for pl in places:
                    for pr, name in enumerate(names):
                        if name not in INSERTING:
                            continue
                        for ra in (0, 1):
                            if q and ra and (pi + pl) % 2:
                                continue
                            scs.append(dict(cell=ci, pat=pn, subpose=pi, place=pl, pair=pr, replace_all=ra, atol=0.05, fraction=1.0, noise=(pi + pl + pr + ci) % 2))
    for ci in range(len(G.CELLS)):
        for pn in (['CN', 'CNO', 'BF3'] if q else PATS[1:]):
            for nc in ((2,) if q else (2, 3)):
                scs.append(dict(cell=ci, pat=pn, subpose=4, ncopies=nc, place=0, pair=[p[0] for p in pairs(pn)].index('grown (shared core + 2 atoms)'), replace_all=0, atol=0.05, fraction=1.0, noise=0))
    # partial replacement: differently oriented copies, every sampled subset (the rotation used must be the sampled match's own)
    for ci in range(len(G.CELLS)):
        for pn in (['CN', 'CNO', 'CHHB'] if q else PATS[1:]):
            for nc, f in ((3, 0.5), (3, 1.0 / 3), (4, 0.5)) if not q else ((3, 0.5), (3, 1.0 / 3)):
                scs.append(dict(cell=ci, pat=pn, subpose=4, ncopies=nc, place=0, pair=[p[0] for p in pairs(pn)].index('grown (shared core + 2 atoms)'), replace_all=0, atol=0.05, fraction=f, noise=0))
    for ci in (0, 2, 6):
        for pn in ['CN', 'CNO', 'CHHB']:
            for pr, name in enumerate(p[0] for p in pairs(pn)):
                if name in INSERTING:
                    scs.append(dict(cell=ci, pat=pn, subpose=4, place=P(0.97, 0.03, 0.97), pair=pr, replace_all=0, atol=0.05, fraction=1.0, noise=0, frame=[9000.0, 7000.0, -8000.0]))
    scs += [dict(scale='large', variant=v, atol=0.05, fraction=1.0, replace_all=0) for v in (0, 1)]
    scs += [dict(scale='sheet', variant=v, height=0.5, atol=0.2, fraction=1.0, replace_all=ra) for v in (0, 1) for ra in (0, 1)]
    for ci in (0, 2, 4):
        for pn in ['CN', 'CNO']:
            for pr in [i for i, p_ in enumerate(pairs(pn)) if p_[0] in INSERTING][:4]:
                for rc in (1, 2):
                    scs.append(dict(cell=ci, pat=pn, subpose=4, place=P(0.97, 0.03, 0.97), pair=pr, replace_all=0, atol=0.05, fraction=1.0, noise=0, rcell=rc))
    scs += replace_history_scenarios()
    return dict(scenarios=scs, exhaustive=True, chunk=20,
                menus=dict(cells=[c[0] for c in G.CELLS], patterns=PATS, pairs=INSERTING, fractions=[1.0, 0.5, 1.0 / 3], replace_all=[False, True], joint_motions=3 if q else 6, copies=[1, 2, 3]),
                bounds=dict(draw_deviation_bound=draw_bound(tier)),
                rule='one scenario per alphabet tuple, every draw answer and every joint motion inside; non-trivial = at least one atom inserted next to a cell boundary',
                assumptions=['coverage over the finite menus', 'atoms inserted for a match are the new atoms in append order (C10/C11)'])


def joint_motions(seed, n):
    sp = sub_poses(seed)
    ms = [(sp[1], np.array([1.0, -2.0, 0.5])), (sp[4], np.zeros(3)), (np.identity(3), np.array([-6.5, 3.25, 11.0])), (sp[3], np.array([0.3, 0.3, 0.3])), (sp[5], np.array([5.0, 5.0, 5.0])), (sp[2], np.array([0, 0, -1.0]))]
    return ms[:n]


def check_positions(c, sc, answers, res, rec, out, case):
    V = lambda clause, sig, msg: out['violations'].append(viol(clause, sig, '%s [pair=%s, cell=%s, draw answers %r]' % (msg, c['pair'], c['cellname'], tuple(answers)), sc, case=case, answers=list(answers)))
    cell = c['cell']; inv = np.linalg.inv(cell)
    idxs = [tuple(int(i) for i in t) for t in rec[0]]; mpos = np.asarray(rec[1]); quats = rec[2]
    sel = selected_matches(answers, rec, sc.get('fraction', 1.0))
    if sel is None:
        V('no-result', 'sample', 'unexpected sampling'); return 0
    idxs = [idxs[i] for i in sel]; mpos = mpos[sel] if len(sel) else mpos[:0]; quats = [quats[i] for i in sel]
    sh = {} if sc.get('replace_all') else shared_map(c['pel'], c['pp'], c['rel'], c['rpos'])
    ins_idx = [i for i in range(len(c['rel'])) if i not in sh]
    nins = len(ins_idx) * len(idxs)
    opos = np.asarray(res.positions)
    if nins == 0 or len(opos) < nins:
        return 0
    tail = opos[len(opos) - nins:]
    fr = tail @ inv
    if fr.min() < -1e-9 or fr.max() > 1 + 1e-9:
        j = int(np.argmax(np.maximum(-fr.min(axis=1), fr.max(axis=1) - 1)))
        V('inside-cell', 'outside', 'inserted atom lies outside the unit cell: fractional coordinates %r' % np.round(fr[j], 4).tolist())
    pp = c['pp']; rp_only = c['rpos'][ins_idx]
    P_all = np.vstack([pp, rp_only])
    cprime = combined_c(pp, rp_only)
    for mi, m in enumerate(idxs):
        X = mpos[mi]
        eps = kabsch(pp, X)[0]
        lb = subset_rmsd_bound(pp, X)
        if lb > 1.8 * sc['atol'] + 1e-3:
            # no proper rigid image of the search pattern has all atoms within sqrt(3)*atol of the atoms that were replaced
            V('rigid-placement', 'match-outside-tolerance', 'match %r: the replaced atoms are not a proper rigid image of the search pattern within the tolerance (rms deviation of a 4-atom subset %.3g, atol %g)' % (m, lb, sc['atol']))
            return nins
        q = quats[mi] if isinstance(quats[mi], R) else R.from_quat(quats[mi])
        pred = q.apply(rp_only - pp[0]) + X[0]
        ins = tail[mi * len(ins_idx):(mi + 1) * len(ins_idx)]
        tol = cprime * eps + 1e-6 * (1 + float(np.linalg.norm(P_all - pp[0], axis=1).max()))      # rounding floor grows with the lever arm
        d = (pred - ins) @ inv
        ins_u = ins + np.round(d) @ cell
        fit = kabsch(P_all, np.vstack([X, ins_u]))[0]
        if fit > tol:
            V('rigid-placement', 'misplaced', 'match %r: matched + inserted atoms are not a proper rigid image of search + replacement coordinates (Kabsch deviation %.3g > %.3g; matched-only deviation %.3g); inserted fractional %r' % (
                m, fit, tol, eps, np.round(ins @ inv, 4).tolist()))
            return nins
    return nins


def run(sc, ctx):
    out = dict(evals=0, compared=0, violations=[], outcomes={}, hashes={h64(sc)}, nontrivial=0)
    if 'rhistory' in sc:
        judge_replace_history(run_replace_history(sc, ctx), sc, out, 'rigid-placement'); return out
    c = build_case(sc, ctx)
    case = case_dump(c, sc)
    exs = replace_executions(c, sc, ctx, draw_bound(ctx['tier']))
    nins = 0; base = None
    for answers, res, nm, err, rec in exs:
        out['evals'] += 1; out['compared'] += 1
        if err:
            out['violations'].append(viol('no-result', 'exc:' + exc_sig(err), 'replace_pattern_in_structure raised %r [pair=%s]' % (err[0], c['pair']), sc, case=case, tb=err[1])); continue
        if rec is None:
            continue
        nins = max(nins, check_positions(c, sc, answers, res, rec, out, case))
        if base is None:
            base = res
        if len(out['violations']) > 4:
            break
    # joint rigid motion of both patterns: same output structure modulo the lattice
    if base is not None and not out['violations'] and sc.get('fraction', 1.0) >= 1.0:
        ex = explorer(ctx)
        inv = np.linalg.inv(c['cell'])
        eps0 = max([kabsch(c['pp'], np.asarray(x))[0] for x in exs[0][4][1]] + [0.0])
        lever = float(np.linalg.norm(np.vstack([c['pp'], c['rpos']]) - c['pp'][0], axis=1).max())      # rounding in the constructed rotation is amplified by the lever arm
        tol = 1e-6 * (1 + lever) + 2 * combined_c(c['pp'], c['rpos']) * eps0
        for ji, (Rm, t) in enumerate(joint_motions(ctx['seed'], 3 if ctx['tier'] == 'quick' else 6)):
            sp2 = pattern_atoms(c['pel'], (Rm @ c['pp'].T).T + t, q0=-0.7, g0=90)
            rp2 = pattern_atoms(c['rel'], (Rm @ c['rpos'].T).T + t)
            (r2, err), _ = ex.run(lambda: call(replace_pattern_in_structure, c['s'], sp2, rp2, atol=sc['atol'], replace_all=bool(sc.get('replace_all', 0))), ())
            out['evals'] += 1; out['compared'] += 1
            if err:
                out['violations'].append(viol('no-result', 'exc:' + exc_sig(err), 'jointly moved patterns: raised %r' % (err[0],), sc, case=case)); continue
            if len(r2.positions) != len(base.positions) or list(r2.elements) != list(base.elements):
                out['violations'].append(viol('joint-motion', 'atoms', 'jointly moved patterns (motion %d) give different atoms: %r vs %r' % (ji, list(r2.elements), list(base.elements)), sc, case=case)); continue
            if len(c['pp']) <= 2 or np.linalg.matrix_rank((c['pp'] - c['pp'][0]), tol=1e-6) < 2:
                continue      # one-atom / collinear search pattern: the placement about the axis is legitimately free
            d = (np.asarray(r2.positions) - np.asarray(base.positions)) @ inv
            dev = np.abs((d - np.round(d)) @ c['cell']).max()
            if dev > tol:
                out['violations'].append(viol('joint-motion', 'positions', 'jointly moved patterns (motion %d) move the result by %.3g (mod lattice), allowed %.3g [pair=%s]' % (ji, dev, tol, c['pair']), sc, case=case))
    pl = G.PLACEMENTS[sc['place']] if 'place' in sc else (0.0,)
    out['outcomes']['inserted=%d pair=%s' % (nins, c['pair'][:10])] = 1
    if nins and (min(pl) < 0.1 or max(pl) > 0.9):
        out['nontrivial'] = 1
    if sc.get('cell') == 3 and sc.get('pat') == 'CNO' and sc['pair'] == 4 and sc['subpose'] == 4 and not sc['replace_all'] and sc.get('ncopies', 1) == 1:
        out['samples'] = [dict(case=case, inserted_fractional=np.round(np.asarray(exs[0][1].positions)[-nins:] @ np.linalg.inv(c['cell']), 4).tolist() if nins and exs[0][1] is not None else None)]
    return out
