"""Shared scenario enumeration and execution for the pattern-search properties (C01, C02, C03)."""
import itertools
import numpy as np
from scipy.spatial.transform import Rotation as R
from mc.checks.common import *
from mc.engine.choices import Explorer
from mc.alphabet import geom as G
from mc.ref.geom import kabsch, cconst, cconst_hints, ref_match, rigid_residual, lattice_residual, hints_valid, resolve_hints, perpendicular_widths
from mofun import find_pattern_in_structure

_EX = {}


def explorer(ctx):
    if 'ex' not in _EX:
        _EX['ex'] = Explorer(seed=ctx['seed'])
        if ctx['tier'] == 'quick':
            _EX['ex'].vectors = [_EX['ex'].vectors[0], _EX['ex'].vectors[3]]
        _EX['ex'].install()
    return _EX['ex']


def pose_menu(tier, seed):
    if tier == 'quick':
        return G.poses(seed, 2, cube=[0, 3, 20, 23])[:4] + G.poses(seed, 2, cube=[])[1:2] + G.poses(seed, 2, cube=[])[3:]   # identity + 3 flips, 2 near-degenerate, 2 generic
    return G.poses(seed, 4, cube=[0, 1, 3, 4, 5, 10, 14, 20, 23])                       # 9 cube (6 flips) + 4 near-degenerate + 4 generic


def hint_forms(pp):
    """every partial form and every full triple that is valid by the documented rule"""
    n = len(pp); out = []
    if n == 1:
        return out
    idx = list(range(n))
    forms = [(a, None, None) for a in idx] + [(None, a, None) for a in idx] + [(a, b, None) for a in idx for b in idx if a != b]
    if n > 2:
        forms += [(None, None, o) for o in idx] + [(a, b, o) for a in idx for b in idx for o in idx if len({a, b, o}) == 3]
        forms += [(a, None, o) for a in idx for o in idx if a != o]
    for f in forms:
        if hints_valid(pp, *f):
            out.append(f)
    return out


LAYOUTS = [  # further copies: (pose index into the 6-element sub-menu, fractional anchor)
    [(1, (0.55, 0.5, 0.52))], [(2, (0.5, 0.03, 0.5))], [(3, (0.52, 0.55, 0.03)), (4, (0.03, 0.52, 0.55))],
    [(5, (0.97, 0.97, 0.5)), (0, (0.5, 0.5, 0.97))], [(4, (0.5, 0.5, 0.5)), (1, (0.0, 0.5, 0.5))],
]


def sub_poses(seed):
    cr = G.cube_rotations()
    return [cr[0], cr[20], cr[23], cr[9]] + G.generic_rotations(seed, 2)     # identity, two flips, one 90 degree, two generic


def P(*fr):
    return G.PLACEMENTS.index(tuple(fr))


def base_scenarios(tier, seed, hints=False):
    """sub-products (each complete): A cells x patterns x poses x placements, no decoy;
    B cells x patterns x poses x decoys at rotating boundary placements; C (atol, noise) variants;
    D multi-copy layouts; E hint forms"""
    scs = []
    np_ = len(pose_menu(tier, seed))
    q = tier == 'quick'
    cells = range(len(G.CELLS))
    if q:
        placesA = [P(0.03, 0.03, 0.03), P(0.97, 0.03, 0.97), P(0.03, 0.97, 0.5), P(0.5, 0.5, 0.5), P(0.0, 0.0, 0.0)]
        placesB = [P(0.97, 0.03, 0.97), P(0.03, 0.97, 0.03)]
        decoysB = ['mirror', 'nearmiss', 'second']
    else:
        placesA = [P(*c) for c in G.CORNERS] + [P(0.5, 0.5, 0.5), P(0.03, 0.5, 0.97), P(0.5, 0.97, 0.03), P(0.0, 0.0, 0.0), P(0.0, 0.5, 0.5), P(0.5, 0.0, 0.0)]
        placesB = [P(0.97, 0.03, 0.97), P(0.03, 0.97, 0.03), P(0.97, 0.97, 0.5), P(0.03, 0.03, 0.03), P(0.0, 0.0, 0.5)]
        decoysB = G.DECOYS[1:]
    for ci in cells:
        for pn in G.PATTERN_NAMES:
            for pi in range(np_):
                for pl in placesA:
                    scs.append(dict(cell=ci, pat=pn, pose=pi, place=pl, decoy='none', atol=0.05, noise=0))
                extra_decoys = (['lookalike'] if G.pattern(pn)[0][0] in G.LOOKALIKE else []) + (['bent'] if pn in G.COLLINEAR else [])
                for di, d in enumerate(decoysB + (extra_decoys if q else [])):
                    if d in ('lookalike', 'bent') and d not in extra_decoys:
                        continue
                    for j in range(1 if q else 2):
                        scs.append(dict(cell=ci, pat=pn, pose=pi, place=placesB[(pi + di + j) % len(placesB)], decoy=d, atol=0.05, noise=0))
                if q:
                    d = ['partial', 'distractors', 'second'][pi % 3]
                    scs.append(dict(cell=ci, pat=pn, pose=pi, place=placesB[pi % 2], decoy=d, atol=0.05, noise=1))
            for pi in (range(np_ - 2, np_) if q else range(0, np_, 3)):
                for at, nz in ((0.01, 0), (0.2, 0), (0.2, 1), (0.001, 0)) + (() if q else ((0.05, 1), (0.01, 1))):
                    for di, d in enumerate(['nearmiss', 'mirror'] if q else ['nearmiss', 'mirror', 'second', 'distractors']):
                        scs.append(dict(cell=ci, pat=pn, pose=pi, place=placesB[(pi + di) % len(placesB)], decoy=d, atol=at, noise=nz))
    lay = range(2) if q else range(len(LAYOUTS))
    p0s = range(2) if q else range(6)
    for ci in cells:
        for pn in G.PATTERN_NAMES:
            for li in lay:
                for p0 in p0s:
                    scs.append(dict(cell=ci, pat=pn, pose0=p0, layout=li, place=P(0.03, 0.03, 0.03), decoy='none', atol=0.05, noise=0))
    if hints:
        hc = [2] if q else [2, 3, 5]
        hp = [4] if q else [4, 1]
        hpl = [P(0.97, 0.03, 0.97)] if q else [P(0.97, 0.03, 0.97), P(0.5, 0.5, 0.5)]
        for ci in hc:
            for pn in G.PATTERN_NAMES:
                el, pp = G.pattern(pn)
                if len(el) > 5 or len(el) == 1:
                    continue
                for pi in hp:
                    for pl in hpl:
                        for f in hint_forms(pp):
                            scs.append(dict(cell=ci, pat=pn, subpose=pi, place=pl, decoy='mirror' if (pl + pi + ci) % 2 else 'none', atol=0.05, noise=0, hints=list(f)))
    return scs


def draw_bound(tier):
    return 1 if tier == 'quick' else 2


def menus(tier, seed):
    return dict(cells=[c[0] for c in G.CELLS], patterns=G.PATTERN_NAMES, poses=[p[0] for p in pose_menu(tier, seed)], placements=[list(p) for p in G.PLACEMENTS],
                decoys=G.DECOYS, atol_noise=[[0.05, 0], [0.05, 1], [0.01, 0], [0.2, 0], [0.2, 1], [0.001, 0]], layouts=len(LAYOUTS), random_vectors=2 if tier == 'quick' else 4,
                draws='every answer of random.choice and np.random.random within the deviation bound')


# custom element names (valid when masses are given); decoys differ beyond the second character.  [0]: pattern names of two characters, [1]: longer ones
NAMES = [{'C': 'Cx', 'N': 'Nx', 'O': 'Ox'}, {'C': 'Cx', 'N': 'Nx1', 'O': 'Ox12'}]
NAME_DECOYS = [{'C': 'Cx2', 'N': 'Nx1', 'O': 'Ox12'}, {'C': 'Cx2', 'N': 'Nx', 'O': 'Ox1'}]
SPECIAL_PLACE = 16


def special_scenarios(tier):
    """cases beyond the small bound that C01 / C02 share: many-atom chiral patterns next to their mirror image, custom element
    names longer than two characters, more than 2^15 atoms"""
    scs = []
    for v in (0, 1):
        for n, apex in ((30, None), (71, None), (71, 36), (64, 1)):
            for at, h in ((0.2, 0.5), (0.05, 0.5), (0.2, 1.2)):
                scs.append(dict(special='sheet', variant=v, n=n, apex=apex, height=h, atol=at, decoy='mirror', noise=0, place=SPECIAL_PLACE))
    scs += [dict(special='names', variant=v, long=lg, cell=ci, atol=0.05, decoy='lookalike', noise=0, place=SPECIAL_PLACE) for v in (0, 1, 2) for lg in (0, 1) for ci in (0, 2)]
    scs += [dict(special='large', variant=v, atol=0.05, decoy='none', noise=0, place=SPECIAL_PLACE) for v in (0, 1, 2)]
    # several copies in a structure whose atoms are stored in reverse / interleaved order (matches are not found in index order)
    scs += [dict(special='reordered', cell=ci, pat=pn, pose0=p0, layout=li, order=o, atol=0.05, decoy='none', noise=0, place=SPECIAL_PLACE)
            for ci in (0, 2) for pn in ('CN', 'CNO', 'CH4') for p0 in (0, 4) for li in (2, 3) for o in (0, 1)]
    # matches that share their first atom: the C-H pair searched in CH4 / BF3-like stars, atoms stored in three orders
    scs += [dict(special='star', cell=ci, pat=pn, order=o, subpose=pi, atol=0.05, decoy='none', noise=0, place=SPECIAL_PLACE) for ci in (0, 2, 4) for pn in ('CH4', 'BF3') for o in (0, 1, 2) for pi in (0, 4)]
    # a triclinic cell whose tilt factors are all negative
    scs += [dict(special='negcell', pat=pn, subpose=pi, place=pl, atol=0.05, decoy=d, noise=0) for pn in ('CN', 'CNO', 'CH4') for pi in (0, 4) for pl in [P(*c) for c in G.CORNERS[::3]] + [P(0.5, 0.5, 0.5)] for d in ('none', 'second')]
    scs += [dict(special='negcell', pat=pn, subpose=4, place=pl, layout=li, atol=0.05, decoy='none', noise=0) for pn in ('CN', 'CNO', 'CH4', 'CHFClBr') for pl in (P(0.03, 0.03, 0.03), P(0.03, 0.97, 0.97)) for li in range(len(LAYOUTS))]
    return scs


def named_atoms(el, pos, cell):
    uniq = list(dict.fromkeys(el))
    return Atoms(atom_types=[uniq.index(e) for e in el], atom_type_elements=uniq, atom_type_labels=uniq, atom_type_masses=[12.0 + i for i in range(len(uniq))],
                 positions=np.asarray(pos, float), **({} if cell is None else dict(cell=np.array(cell, float))))


def special(sc, ctx):
    kind = sc['special']; seed = ctx['seed']
    if kind == 'star':
        cell = G.CELLS[sc['cell']][1]; sp = sub_poses(seed)
        spec = G.build(cell, sc['pat'], sp[sc['subpose']], G.PLACEMENTS[P(0.97, 0.03, 0.97)], decoy='none', atol=sc['atol'], noise=False, seed=seed, extra_copies=[(sp[2], (0.5, 0.52, 0.48))])
        n = len(spec['el']); perm = [list(range(n)), list(range(n))[::-1], list(range(1, n, 2)) + list(range(0, n, 2))[::-1]][sc['order']]
        inv = {old: new for new, old in enumerate(perm)}
        el = [spec['el'][i] for i in perm]; pos = np.asarray(spec['pos'])[perm]
        pel = list(spec['pel'][:2]); pp = np.asarray(spec['pp'])[:2]
        planted = [(inv[t[0]], inv[j]) for t in spec['planted'] for j in t[1:]]
        spec = dict(el=el, pos=pos, pel=pel, pp=pp, planted=planted)
        return dict(s=Atoms(elements=el, positions=pos, cell=cell.copy()), p=Atoms(elements=pel, positions=pp + np.array([3.3, -1.2, 0.7])), spec=spec, cell=cell, kw={})
    if kind in ('reordered', 'negcell'):
        if kind == 'negcell':
            rot = sub_poses(seed)[sc['subpose']]; cell = G.TRI_N
            extra = [(sub_poses(seed)[pi], fr) for pi, fr in LAYOUTS[sc['layout']]] if 'layout' in sc else ()
            spec = G.build(cell, sc['pat'], rot, G.PLACEMENTS[sc['place']], decoy=sc['decoy'], atol=sc['atol'], noise=False, seed=seed, extra_copies=extra)
            perm = list(range(len(spec['el'])))
        else:
            cell = G.CELLS[sc['cell']][1]; sp = sub_poses(seed)
            spec = G.build(cell, sc['pat'], sp[sc['pose0']], G.PLACEMENTS[P(0.03, 0.03, 0.03)], decoy='none', atol=sc['atol'], noise=False, seed=seed, extra_copies=[(sp[pi], fr) for pi, fr in LAYOUTS[sc['layout']]])
            n = len(spec['el']); perm = list(range(n))[::-1] if sc['order'] == 0 else list(range(1, n, 2)) + list(range(0, n, 2))[::-1]
        inv = {old: new for new, old in enumerate(perm)}
        el = [spec['el'][i] for i in perm]; pos = np.asarray(spec['pos'])[perm]
        spec = dict(spec, el=el, pos=pos, planted=[tuple(inv[i] for i in t) for t in spec['planted']])
        w = min(perpendicular_widths(cell)); diam = np.linalg.norm(spec['pp'][:, None] - spec['pp'][None], axis=2).max()
        if not w > diam + 2 * sc['atol']:
            raise HarnessError('alphabet violates the domain')
        return dict(s=Atoms(elements=el, positions=pos, cell=cell.copy()), p=Atoms(elements=spec['pel'], positions=spec['pp'] + np.array([3.3, -1.2, 0.7])), spec=spec, cell=cell, kw={})
    if kind == 'sheet':
        cell = G.SHEET_CELLS[sc['variant']]
        pel, pp = G.sheet_pattern(sc['n'], sc['height'], sc['apex'])
        el, pos, proper, mirror = G.sheet_structure(cell, G.generic_rotations(seed, 3)[1], (0.5, 0.5, 0.5), (0.02, 0.97, 0.01), sc['n'], sc['height'], sc['apex'])
        planted = [proper]; s = Atoms(elements=el, positions=pos, cell=cell.copy()); p = Atoms(elements=pel, positions=pp + np.array([3.3, -1.2, 0.7]))
    elif kind == 'large':
        cell, pos, el, pp, pel, planted = G.large_case(sc['variant'])
        s = Atoms(elements=el, positions=pos, cell=cell.copy()); p = Atoms(elements=pel, positions=pp + np.array([3.3, -1.2, 0.7]))
    else:
        # C-N-O with custom element names; one true copy, decoy copies in which one atom carries a name that agrees in the first two characters only
        cell = G.CELLS[sc['cell']][1]; el0, pp = G.pattern('CNO'); sp = sub_poses(seed)
        pel = [NAMES[sc['long']][e] for e in el0]
        el = list(pel); pos = [(sp[4] @ pp.T).T + np.array([0.97, 0.03, 0.97]) @ cell]
        for j, fr in enumerate([(0.3, 0.6, 0.4), (0.6, 0.3, 0.7), (0.45, 0.8, 0.2)]):
            d = list(pel); a = (j + sc['variant']) % 3; d[a] = NAME_DECOYS[sc['long']][el0[a]]
            el += d; pos.append((sp[(j + 1) % len(sp)] @ pp.T).T + np.array(fr) @ cell)
        pos = G._wrap(np.vstack(pos), cell); planted = [(0, 1, 2)]
        s = named_atoms(el, pos, cell); p = named_atoms(pel, pp + np.array([3.3, -1.2, 0.7]), None)
    spec = dict(el=list(el), pos=np.asarray(pos), pel=list(pel), pp=np.asarray(pp, float), planted=[tuple(t) for t in planted])
    return dict(s=s, p=p, spec=spec, cell=cell, kw={})


def materialise(sc, ctx):
    """-> dict(structure Atoms, pattern Atoms, spec (from alphabet.build), cell, hints kwargs)"""
    if 'special' in sc:
        return special(sc, ctx)
    cell = G.CELLS[sc['cell']][1]
    seed = ctx['seed']
    extra = ()
    if 'layout' in sc:
        sp = sub_poses(seed); rot = sp[sc['pose0']]
        extra = [(sp[pi], fr) for pi, fr in LAYOUTS[sc['layout']]]
    elif 'subpose' in sc:
        rot = sub_poses(seed)[sc['subpose']]
    else:
        rot = pose_menu(ctx['tier'], seed)[sc['pose']][1]
    spec = G.build(cell, sc['pat'], rot, G.PLACEMENTS[sc['place']], decoy=sc['decoy'], atol=sc['atol'], noise=bool(sc['noise']), seed=seed, extra_copies=extra)
    w = min(perpendicular_widths(cell)); pp = spec['pp']
    diam = np.linalg.norm(pp[:, None] - pp[None], axis=2).max()
    if not w > diam + 2 * sc['atol']:
        raise HarnessError('alphabet violates the domain: cell width %.2f <= pattern diameter + 2 atol' % w)
    s = Atoms(elements=spec['el'], positions=spec['pos'], cell=cell.copy())
    # pattern given away from the origin so that absolute pattern coordinates cannot matter
    p = Atoms(elements=spec['pel'], positions=spec['pp'] + np.array([3.3, -1.2, 0.7]))
    kw = {}
    if sc.get('hints'):
        for name, v in zip(('axisp1_idx', 'axisp2_idx', 'opoint_idx'), sc['hints']):
            if v is not None:
                kw[name] = v
    return dict(s=s, p=p, spec=spec, cell=cell, kw=kw)


def executions(m, sc, ctx, bound, with_plain=False):
    """every execution of find (with positions and quats) within the draw bound: [(answers, result, err, plain)]"""
    ex = explorer(ctx)
    s, p, kw, atol = m['s'], m['p'], m['kw'], sc['atol']

    def fn():
        return call(find_pattern_in_structure, s, p, atol=atol, return_positions_and_quats=True, **kw)
    out = []
    for answers, (res, err) in ex.explore(fn, bound=bound, cap=ctx.get('cap', 60 if ctx['tier'] == 'quick' else 300), observe=lambda r: repr((None if r[0] is None else [r[0][0], np.round(r[0][1], 9).tolist()], r[1] and repr(r[1][0])))):
        plain = None
        if with_plain and not err and not answers_nonzero(answers):
            plain, perr = ex.run(lambda: call(find_pattern_in_structure, s, p, atol=atol, **kw), answers)[0]
            ex.stats['executions'] -= 1
            plain = plain if perr is None else ('exc', repr(perr[0]))
        out.append((answers, res, err, plain))
    return out


def answers_nonzero(a):
    return any(a)


def describe_case(m, sc):
    if len(m['spec']['el']) > 300:
        return dict(scenario=sc, cell=m['cell'].tolist(), atoms=len(m['spec']['el']), pattern_elements=m['spec']['pel'], planted=m['spec']['planted'])
    return dict(scenario=sc, cell=m['cell'].tolist(), structure_elements=m['spec']['el'], structure_positions=np.round(m['spec']['pos'], 6).tolist(),
                pattern_elements=m['spec']['pel'], pattern_positions=(m['spec']['pp'] + np.array([3.3, -1.2, 0.7])).tolist(), planted=m['spec']['planted'], hints=m['kw'])


# ---------------------------------------------------------------------------------------------------------------------
# histories (mc/checks/histories.py): the search on an object with a past must equal the search on a fresh equal object
from mc.checks import histories as H

HIST_BASES = [dict(cell=ci, pat=pn, subpose=4, place=P(0.97, 0.03, 0.97), decoy=d, atol=0.05, noise=0) for ci in (0, 2) for pn, d in (('CHFClBr', 'mirror'), ('CNO', 'second'), ('CHHB', 'mirror'))]


def _find(ctx, S, Pt, atol, **kw):
    (res, err), _ = explorer(ctx).run(lambda: call(find_pattern_in_structure, S, Pt, atol=atol, return_positions_and_quats=True, **kw), ())
    return res, err


def _h_translate_wrap(ctx, e):
    _find(ctx, e['S'], e['P'], e['atol']); H.wrap_in_place(e['S'], np.array([0.41, -0.33, 0.27]))


def _h_translate_lattice(ctx, e):
    _find(ctx, e['S'], e['P'], e['atol']); call(e['S'].translate, np.array([0.004, 0.003, 0.002]))


def _h_move_atom(ctx, e):
    _find(ctx, e['S'], e['P'], e['atol']); e['S'].positions[e['planted'][0][-1]] += np.array([0.4, 0.3, 0.2]) * np.sign(0.5 * np.asarray(e['S'].cell, float).sum(axis=0) - e['S'].positions[e['planted'][0][-1]])


def _h_retype_atom(ctx, e):
    _find(ctx, e['S'], e['P'], e['atol'])
    k = e['planted'][0][0]; t = int(e['S'].atom_types[k]); others = [x for x in range(len(e['S'].atom_type_elements)) if x != t]
    e['S'].atom_types[k] = others[0]


def _h_cell_assign(ctx, e):
    _find(ctx, e['S'], e['P'], e['atol']); e['S'].cell = np.asarray(e['S'].cell, float) * np.array([[2.0], [1.0], [1.0]])


def _h_replicate(ctx, e):
    _find(ctx, e['S'], e['P'], e['atol']); e['S'] = e['S'].replicate((2, 1, 1))


def _h_copy_then_edit(ctx, e):
    _find(ctx, e['S'], e['P'], e['atol']); e['S'] = e['S'].copy(); H.wrap_in_place(e['S'], np.array([-0.5, 0.2, 0.6]))


def _h_short_pattern_first(ctx, e):
    Ps = Atoms(elements=list(e['P'].elements)[:2], positions=np.asarray(e['P'].positions)[:2])
    _find(ctx, e['S'], Ps, e['atol'])


def _h_other_atol_first(ctx, e):
    _find(ctx, e['S'], e['P'], 0.01); _find(ctx, e['S'], e['P'], 0.3)


def _h_mirror_pattern(ctx, e):
    _find(ctx, e['S'], e['P'], e['atol']); e['P'].positions[:, 2] *= -1


def _h_copy_mirror_pattern(ctx, e):
    _find(ctx, e['S'], e['P'], e['atol']); e['P'] = e['P'].copy(); e['P'].positions[:, 2] *= -1


def _h_flip_pattern(ctx, e):
    _find(ctx, e['S'], e['P'], e['atol']); e['P'].positions[:, :2] *= -1


def _h_translate_pattern(ctx, e):
    _find(ctx, e['S'], e['P'], e['atol']); call(e['P'].translate, np.array([5.0, -7.5, 2.25]))


def _h_default_then_hints(ctx, e):
    _find(ctx, e['S'], e['P'], e['atol']); e['kw'] = e['hint_forms'][e['hi'] % len(e['hint_forms'])]


def _h_hints_then_default(ctx, e):
    _find(ctx, e['S'], e['P'], e['atol'], **e['hint_forms'][e['hi'] % len(e['hint_forms'])])


def _h_hints_then_other_hints(ctx, e):
    _find(ctx, e['S'], e['P'], e['atol'], **e['hint_forms'][e['hi'] % len(e['hint_forms'])]); e['kw'] = e['hint_forms'][(e['hi'] + 1) % len(e['hint_forms'])]


def _h_other_structure_first(ctx, e):
    S2 = H.fresh(e['S']); H.wrap_in_place(S2, np.array([1.3, 0.9, -2.2])); S2.cell = np.asarray(S2.cell, float) * 1.0
    _find(ctx, S2, e['P'], e['atol'])


def _h_replace_first(ctx, e):
    R2 = Atoms(elements=list(e['P'].elements)[:-1] + ['Xe'], positions=np.asarray(e['P'].positions).copy())
    explorer(ctx).run(lambda: call(MM_replace, e['S'], e['P'], R2, atol=e['atol']), ())


def _h_same_call_twice(ctx, e):
    _find(ctx, e['S'], e['P'], e['atol'], **e['kw']); _find(ctx, e['S'], e['P'], e['atol'], **e['kw'])


def _h_elements_and_save_first(ctx, e):
    list(e['S'].elements); list(e['P'].elements); s = io.StringIO(); call(e['S'].save_lmpdat, s); call(e['S'].cell_abc_alpha_beta_gamma)


def _h_shared_array(ctx, e):
    # structure and pattern built from views of one array (the pattern is cut out of the crystal): later operations on one must not move the other
    allpos = np.array(np.asarray(e['S'].positions, float), copy=True); k = len(e['P'].atom_types); idx = list(e['planted'][0])
    order = idx + [i for i in range(len(allpos)) if i not in idx]
    allpos = allpos[order]; els = [list(e['S'].elements)[i] for i in order]
    e['S'] = Atoms(elements=els, positions=allpos, cell=np.array(e['S'].cell)); e['P'] = Atoms(elements=els[:k], positions=allpos[:k])
    e['planted'] = [tuple(range(k))]
    _find(ctx, e['S'], e['P'], e['atol'])
    before = raw_state(e['S'])
    call(e['P'].translate, np.array([0.09, 0.08, -0.07]))
    if raw_state(e['S']) != before:
        e['alias'] = 'translating the pattern (built from a slice of the same coordinate array) moved atoms of the structure'


import io
from mofun import replace_pattern_in_structure as MM_replace
FIND_HISTORIES = [('search, shift-and-wrap the structure in place, search', _h_translate_wrap), ('search, translate() the structure slightly, search', _h_translate_lattice),
                  ('search, move one matched atom in place, search', _h_move_atom), ('search, retype one matched atom in place, search', _h_retype_atom),
                  ('search, double the cell along a, search', _h_cell_assign), ('search, replicate 2x1x1, search the replica', _h_replicate),
                  ('search, copy(), edit the copy in place, search the copy', _h_copy_then_edit), ('search with the first two pattern atoms, then with the pattern', _h_short_pattern_first),
                  ('search with atol 0.01 and 0.3, then with atol', _h_other_atol_first), ('search, mirror the pattern in place, search', _h_mirror_pattern),
                  ('search, copy() the pattern and mirror the copy, search', _h_copy_mirror_pattern), ('search, turn the pattern by 180 degrees about z in place, search', _h_flip_pattern),
                  ('search, translate() the pattern, search', _h_translate_pattern), ('search with default axis, then with hints', _h_default_then_hints),
                  ('search with hints, then with default axis', _h_hints_then_default), ('search with hints, then with other hints', _h_hints_then_other_hints),
                  ('search another structure with the same pattern object first', _h_other_structure_first), ('replace on the same objects first', _h_replace_first),
                  ('the same search twice before', _h_same_call_twice), ('read elements / save / cell parameters first', _h_elements_and_save_first),
                  ('structure and pattern built from one coordinate array', _h_shared_array)]


def history_scenarios(tier):
    out = []
    for bi in range(len(HIST_BASES)):
        for hi, (name, fn) in enumerate(FIND_HISTORIES):
            for v in ((0, 1, 2) if 'hints' in name else (0,)):
                out.append(dict(history=hi, base=bi, hi=v, atol=HIST_BASES[bi]['atol'], decoy=HIST_BASES[bi]['decoy'], place=HIST_BASES[bi]['place'], noise=0))
    return out


def run_history(sc, ctx):
    """-> env after the history: S, P, kw, atol, final result (res, err) on the objects with the history, and the same call on fresh objects"""
    base = HIST_BASES[sc['base']]
    m = materialise(base, ctx)
    pp = m['spec']['pp']
    forms = [dict(zip(('axisp1_idx', 'axisp2_idx', 'opoint_idx'), f)) for f in hint_forms(pp)] if len(pp) > 2 else [{}]
    forms = [{k: v for k, v in f.items() if v is not None} for f in forms]; forms = [f for f in forms if f] or [{}]
    e = dict(S=m['s'], P=m['p'], kw={}, atol=base['atol'], planted=[tuple(t) for t in m['spec']['planted']], hint_forms=forms, hi=sc['hi'])
    name, fn = FIND_HISTORIES[sc['history']]
    fn(ctx, e)
    fr = np.asarray(e['S'].positions, float) @ np.linalg.inv(np.asarray(e['S'].cell, float))
    if fr.min() < 0 or fr.max() >= 1:
        return dict(e, skip='the history moved an atom out of the cell (outside the domain of the search)', name=name)
    res, err = _find(ctx, e['S'], e['P'], e['atol'], **e['kw'])
    fS, fP = H.fresh(e['S']), H.fresh(e['P'])
    fres, ferr = _find(ctx, fS, fP, e['atol'], **e['kw']) if fS is not None and fP is not None else (None, None)
    e.update(res=res, err=err, fres=fres, ferr=ferr, name=name, fresh_ok=fS is not None and fP is not None)
    return e
