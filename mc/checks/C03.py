"""C03 - search results do not depend on how crystal or pattern are represented.

Metamorphic, set-valued.  For every base scenario of a reduced product (all CELLS x all PATTERNS x
poses x placements x decoys {none, mirror, second}) the relation menu: shift-and-wrap, atom
permutations (all n! for structures of <= 5 atoms), rigid motions of the pattern, every valid hint
form (index 0 included), every draw answer (E2), supercells.  Plus the repository's real MOF files.
Oracle: the canonical match set (sorted index tuples mapped back through the known renaming) of two
related runs may differ only in GRAY groups, i.e. groups whose measured Kabsch deviation eps has
c*eps > 0.8 atol for the larger amplification constant c of the two runs (DESIGN.md section 2);
supercell: exactly a*b*c x the unit-cell count and every unit-cell group a*b*c times.
"""
import io, itertools, os
import numpy as np
from scipy.spatial.transform import Rotation as R
from mc.checks.findlib import *
from mc.engine.run import REPO
from mc.ref.geom import wrap

ENGINE = 'E1+E2'
DECOYS3 = ['none', 'mirror', 'second']


def gen_bases(tier, seed):
    q = tier == 'quick'
    poses = [0, 4] if q else [0, 1, 4, 5]              # indices into sub_poses: identity / flip / generic
    places = [P(0.97, 0.03, 0.97), P(0.5, 0.5, 0.5)] if q else [P(0.97, 0.03, 0.97), P(0.5, 0.5, 0.5), P(0.03, 0.97, 0.03), P(0.0, 0.0, 0.0), P(0.97, 0.97, 0.5), P(0.03, 0.5, 0.5)]
    out = []
    for ci in range(len(G.CELLS)):
        for pn in G.PATTERN_NAMES:
            for pi in poses:
                for pl in places:
                    for d in DECOYS3:
                        out.append(dict(kind='gen', cell=ci, pat=pn, subpose=pi, place=pl, decoy=d, atol=0.05, noise=1 if (pi + pl) % 3 == 0 else 0))
    return out


REAL = [  # (name, structure file, loader kwargs, pattern, atol)
    ('uio66-triclinic / linker', 'tests/uio66/uio66-triclinic.lmpdat', dict(atom_format='full'), 'tests/uio66/uio66-linker.cml', 0.2),
    ('uio66 / linker', 'tests/uio66/uio66.cif', {}, 'tests/uio66/uio66-linker.cml', 0.05),
    ('uio66 / Zr atom', 'tests/uio66/uio66.cif', {}, 'Zr', 0.05),
    ('uio66 (docs) / metal centre', 'docs/examples/uio66.cif', {}, 'docs/examples/uio66-metal-center.cml', 0.05),
    ('hkust-1 / benzene', 'tests/hkust-1/hkust-1-with-bonds.cif', {}, 'tests/molecules/benzene.xyz', 0.05),
    ('hkust-1 / Cu atom', 'tests/hkust-1/hkust-1-with-bonds.cif', {}, 'Cu', 0.05),
]


def real_relations(tier):
    q = tier == 'quick'
    rel = [('shift', i) for i in range(2 if q else 6)] + [('perm', i) for i in range(1 if q else 3)] + [('motion', i) for i in range(1 if q else 4)] + [('hint', i) for i in range(2 if q else 8)]
    return rel


def plan(tier, seed):
    scs = gen_bases(tier, seed)
    files = range(3) if tier == 'quick' else range(len(REAL))
    for fi in files:
        for rel in real_relations(tier):
            scs.append(dict(kind='real', file=fi, rel=list(rel)))
        if fi == 0:
            scs += [dict(kind='real', file=fi, rel=['super', d]) for d in ([[2, 1, 1]] if tier == 'quick' else [[2, 1, 1], [1, 1, 2], [1, 2, 1]])]
    scs += [dict(kind='large')] + [dict(kind='twist', cell=ci, pre=pre) for ci in (0, 1) for pre in (0, 1, 2)]
    scs += [dict(sc, kind='history') for sc in history_scenarios(tier)]
    return dict(scenarios=scs, exhaustive=True, chunk=4,
                menus=dict(cells=[c[0] for c in G.CELLS], patterns=G.PATTERN_NAMES, decoys=DECOYS3, real_files=[r[0] for r in REAL[:len(files)]],
                           relations=['shift-and-wrap', 'atom permutation', 'rigid motion of the pattern', 'other numbering of the atom types (pattern / structure)', 'hint forms', 'draw answers', 'supercell'],
                           shifts='(1/2,0,0), generic, a lattice vector, -1e-9, + seed-derived (%d)' % (4 if tier == 'quick' else 10),
                           permutations='reverse, rotate, interleave; all n! for structures of <= 5 atoms', supercells='{(2,1,1),(1,1,2)} quick; {1,2,3}^3 for <= 6 atoms, 4 triples otherwise'),
                bounds=dict(draw_deviation_bound=draw_bound(tier)),
                rule='one scenario per base structure (all relations inside) or per (real file, relation); non-trivial = the base run reports at least one match and at least one relation changes the representation',
                assumptions=['differences are excused only for groups whose measured deviation makes them GRAY (c*eps > 0.8 atol)', 'real files: tests/ and docs/examples of the repository'])


def find(s, p, atol, ex, **kw):
    (res, err), _ = ex.run(lambda: call(find_pattern_in_structure, s, p, atol=atol, return_positions_and_quats=True, **kw), ())
    return res, err


def canon(res, back=None):
    idxs = res[0]
    return {tuple(sorted(int(back[i]) if back is not None else int(i) for i in t)): j for j, t in enumerate(idxs)}


def compare(base, rel, pp, atol, c, what, sc, out, back=None, case=None):
    """base/rel: find results; difference groups must be GRAY by their measured deviation"""
    out['compared'] += 1
    A = canon(base); B = canon(rel, back)
    bad = []
    for g in set(A) ^ set(B):
        res, j = (base, A[g]) if g in A else (rel, B[g])
        eps, rmsd, _, _ = kabsch(pp, np.asarray(res[1][j]))
        if c * eps <= 0.8 * atol:
            bad.append((g, 'only in the %s run' % ('base' if g in A else 'related'), eps))
        else:
            out['gray_differences'] = out.get('gray_differences', 0) + 1
    if len(rel[0]) != len(B):
        bad.append(('duplicates', 'related run reports a group twice', 0))
    if bad:
        out['violations'].append(viol('representation-independence', what.split(' ')[0], '%s: match sets differ: %r (base %d matches, related %d)' % (what, bad[:4], len(A), len(B)), sc, case=case))
    return not bad


def shifts_for(cell, seed, n):
    r = np.random.RandomState(300 + seed)
    fixed = [0.5 * cell[0], np.array([0.31, 0.47, 0.83]) @ cell, cell[1] + cell[2], np.array([-1e-9, 0, 0])]
    return (fixed + [r.uniform(-1.5, 1.5, 3) @ cell for _ in range(max(0, n - 4))])[:n]


def perms_for(n, seed, all_small):
    ident = list(range(n))
    if all_small and n <= 5:
        return [list(p) for p in itertools.permutations(range(n))][1:]
    out = [ident[::-1], ident[1:] + ident[:1], ident[0::2] + ident[1::2]]
    r = np.random.RandomState(400 + seed)
    out.append([int(x) for x in r.permutation(n)])
    return [p for p in out if p != ident]


def motions_for(seed, n):
    sp = sub_poses(seed)
    ms = [(sp[1], np.zeros(3)), (sp[4], np.array([10.0, -3.0, 2.5])), (np.identity(3), np.array([-7.0, 0.1, 100.0])), (sp[3], np.array([0.5, 0.5, 0.5])),
          (sp[2], np.zeros(3)), (sp[5], np.array([1.0, 2.0, 3.0])), (G.near_degenerate()[0], np.zeros(3)), (G.near_degenerate()[3], np.array([0.0, 0.0, 5.0]))]
    return ms[:n]


def mk_atoms(el, pos, cell):
    return Atoms(elements=list(el), positions=np.asarray(pos, float), cell=None if cell is None else np.array(cell, float))


def supercell_back(sup, orig_pos, cell):
    """map every supercell atom to its original atom by fractional coordinates (not by replicate's order)"""
    inv = np.linalg.inv(cell)
    f0 = orig_pos @ inv; fs = np.asarray(sup.positions) @ inv
    back = []
    for f in fs:
        d = f[None, :] - f0
        ok = np.where(np.abs(d - np.round(d)).max(axis=1) < 1e-6)[0]
        if len(ok) != 1:
            return None
        back.append(int(ok[0]))
    return back


def run_gen(sc, ctx, out):
    ex = explorer(ctx)
    m = materialise(sc, ctx)
    spec = m['spec']; cell = m['cell']; atol = sc['atol']; pp = spec['pp']; pel = spec['pel']
    q = ctx['tier'] == 'quick'
    c0 = cconst_hints(pp)
    case = describe_case(m, sc)
    # base run + every draw answer
    exs = executions(m, sc, ctx, draw_bound(ctx['tier']))
    out['evals'] += len(exs)
    base, err = exs[0][1], exs[0][2]
    if err:
        out['violations'].append(viol('no-result', 'exc:' + exc_sig(err), 'base run raised %r' % (err[0],), sc, case=case)); return
    for answers, res, err, _ in exs[1:]:
        if err:
            out['violations'].append(viol('no-result', 'exc:' + exc_sig(err), 'run with draw answers %r raised %r' % (answers, err[0]), sc, case=case)); continue
        compare(base, res, pp, atol, c0, 'draws %r' % (answers,), sc, out, case=case)
    n = len(spec['el']); nrel = 0
    # shift-and-wrap
    for si, v in enumerate(shifts_for(cell, ctx['seed'], 4 if q else 10)):
        s2 = mk_atoms(spec['el'], wrap(spec['pos'] + v, cell), cell)
        res, err = find(s2, m['p'], atol, ex); out['evals'] += 1; nrel += 1
        if err:
            out['violations'].append(viol('no-result', 'exc:' + exc_sig(err), 'shifted structure: find raised %r' % (err[0],), sc, case=case)); continue
        compare(base, res, pp, atol, c0, 'shift %d by %s' % (si, np.round(v, 4).tolist()), sc, out, case=case)
    # permutations
    for perm in perms_for(n, ctx['seed'], True)[:(3 if q else 200)]:
        s2 = mk_atoms([spec['el'][i] for i in perm], spec['pos'][perm], cell)
        res, err = find(s2, m['p'], atol, ex); out['evals'] += 1; nrel += 1
        if err:
            out['violations'].append(viol('no-result', 'exc:' + exc_sig(err), 'permuted structure: find raised %r' % (err[0],), sc, case=case)); continue
        compare(base, res, pp, atol, c0, 'permutation %r' % (perm,), sc, out, back=perm, case=case)
    # rigid motions of the pattern
    for mi, (Rm, t) in enumerate(motions_for(ctx['seed'], 3 if q else 8)):
        p2 = mk_atoms(pel, (Rm @ m['p'].positions.T).T + t, None)
        res, err = find(m['s'], p2, atol, ex); out['evals'] += 1; nrel += 1
        if err:
            out['violations'].append(viol('no-result', 'exc:' + exc_sig(err), 'moved pattern: find raised %r' % (err[0],), sc, case=case)); continue
        compare(base, res, pp, atol, c0, 'motion %d of the pattern' % mi, sc, out, case=case)
    # the same pattern / structure with another numbering of the atom types (type id 0 is not the first atom's type)
    def retyped(el, pos, cell):
        uniq = list(dict.fromkeys(el))[::-1] + ['Xe']
        return Atoms(atom_types=[uniq.index(e) for e in el], atom_type_elements=uniq, atom_type_labels=[u + '_t' for u in uniq], atom_type_masses=[MASS.get(u, 1.0) for u in uniq],
                     positions=np.asarray(pos, float), cell=None if cell is None else np.array(cell, float))
    for what, s2, p2 in (('retyped pattern', m['s'], retyped(pel, m['p'].positions, None)), ('retyped structure', retyped(spec['el'], spec['pos'], cell), m['p'])):
        res, err = find(s2, p2, atol, ex); out['evals'] += 1; nrel += 1
        if err:
            out['violations'].append(viol('no-result', 'exc:' + exc_sig(err), '%s: find raised %r' % (what, err[0]), sc, case=case)); continue
        compare(base, res, pp, atol, c0, what, sc, out, case=case)
    # hints
    if 1 < len(pel) <= (4 if q else 5):
        for f in hint_forms(pp):
            kw = {k: v for k, v in zip(('axisp1_idx', 'axisp2_idx', 'opoint_idx'), f) if v is not None}
            res, err = find(m['s'], m['p'], atol, ex, **kw); out['evals'] += 1; nrel += 1
            if err:
                out['violations'].append(viol('no-result', 'hint-exc:' + exc_sig(err), 'hints %r: find raised %r' % (kw, err[0]), sc, case=case)); continue
            compare(base, res, pp, atol, max(c0, cconst_hints(pp, *f)), 'hints %r' % (kw,), sc, out, case=case)
    # supercells
    dims = [(2, 1, 1), (1, 1, 2)] if q else (list(itertools.product((1, 2, 3), repeat=3))[1:] if n <= 6 else [(2, 1, 1), (1, 2, 1), (1, 1, 2), (2, 2, 2)])
    for d in dims:
        sup, err = call(m['s'].replicate, d)
        if err:
            out['violations'].append(viol('supercell', 'replicate-exc', 'replicate%r raised %r' % (d, err[0]), sc, case=case)); continue
        res, err = find(sup, m['p'], atol, ex); out['evals'] += 1; nrel += 1
        if err:
            out['violations'].append(viol('no-result', 'exc:' + exc_sig(err), 'supercell %r: find raised %r' % (d, err[0]), sc, case=case)); continue
        out['compared'] += 1
        nimg = d[0] * d[1] * d[2]
        back = supercell_back(sup, spec['pos'], cell)
        if back is None:
            out['violations'].append(viol('supercell', 'not-a-supercell', 'replicate%r did not produce lattice images of the original atoms' % (d,), sc, case=case)); continue
        A = canon(base)
        counts = {}
        for t in res[0]:
            g = tuple(sorted(back[int(i)] for i in t)); counts[g] = counts.get(g, 0) + 1
        gray = 0
        for g in set(A) | set(counts):
            if counts.get(g, 0) != (nimg if g in A else 0):
                j = A.get(g)
                if j is not None:
                    eps = kabsch(pp, np.asarray(base[1][j]))[0]
                else:
                    jj = [i for i, t in enumerate(res[0]) if tuple(sorted(back[int(x)] for x in t)) == g][0]; eps = kabsch(pp, np.asarray(res[1][jj]))[0]
                if c0 * eps <= 0.8 * atol:
                    out['violations'].append(viol('supercell', 'count', 'supercell %r: occurrence %r reported %d times, expected %d (unit cell reports %d matches, supercell %d)' % (
                        d, g, counts.get(g, 0), nimg if g in A else 0, len(A), len(res[0])), sc, case=case)); break
                gray += 1
        if not gray and len(res[0]) != nimg * len(A) and not any(v['clause'] == 'supercell' for v in out['violations']):
            out['violations'].append(viol('supercell', 'count', 'supercell %r reports %d matches, unit cell %d' % (d, len(res[0]), len(A)), sc, case=case))
    out['outcomes']['matches=%d relations=%d' % (len(base[0]), nrel)] = 1
    if len(base[0]) and nrel:
        out['nontrivial'] = 1
    if sc['pat'] == 'BF3' and sc['cell'] == 3 and sc['decoy'] == 'second' and sc['subpose'] == 4:
        out['samples'] = [dict(case=case, base_matches=base[0], relations=nrel)]


_REAL = {}


def load_real(fi):
    if fi in _REAL:
        return _REAL[fi]
    name, sf, kw, pf, atol = REAL[fi]
    s = Atoms.load(os.path.join(REPO, sf), **kw)
    if pf in ('Zr', 'Cu'):
        p = Atoms(elements=[pf], positions=[(0.0, 0.0, 0.0)])
    elif pf.endswith('.xyz'):
        import ase.io
        p = Atoms.from_ase_atoms(ase.io.read(os.path.join(REPO, pf)))
    else:
        p = Atoms.load(os.path.join(REPO, pf))
    # structures are searched as bare (element, position) crystals
    s = mk_atoms(s.elements, s.positions, s.cell); p = mk_atoms(p.elements, p.positions, None)
    _REAL[fi] = (s, p, atol)
    return _REAL[fi]


def run_real(sc, ctx, out):
    ex = explorer(ctx)
    s, p, atol = load_real(sc['file']); name = REAL[sc['file']][0]
    pp = np.asarray(p.positions); pel = list(p.elements); cell = np.asarray(s.cell); n = len(s.positions)
    c0 = cconst(pp)
    base, err = find(s, p, atol, ex); out['evals'] += 1
    if err:
        out['violations'].append(viol('no-result', 'exc:' + exc_sig(err), '%s: base run raised %r' % (name, err[0]), sc)); return
    kind, i = sc['rel']
    back = None; c = c0; p2 = p; s2 = s; kw = {}
    if kind == 'shift':
        v = shifts_for(cell, ctx['seed'], 6)[i]; s2 = mk_atoms(s.elements, wrap(s.positions + v, cell), cell); what = 'shift by %s' % np.round(v, 4).tolist()
    elif kind == 'perm':
        perm = perms_for(n, ctx['seed'], False)[[3, 0, 2][i]]; s2 = mk_atoms([s.elements[j] for j in perm], s.positions[perm], cell); back = perm; what = 'permutation %d' % i
    elif kind == 'motion':
        Rm, t = motions_for(ctx['seed'], 4)[i]; p2 = mk_atoms(pel, (Rm @ pp.T).T + t, None); what = 'motion %d of the pattern' % i
    elif kind == 'hint':
        if len(pel) == 1:
            out['outcomes']['real: no hints for a one-atom pattern'] = 1; return
        k = len(pel)
        forms = [(0, None, None), (None, 0, None), (k // 2, None, None), (0, k - 1, None), (None, None, k // 3), (1, None, 0), (None, k - 1, None), (2, 0, None)]
        forms = [f for f in forms if hints_valid(pp, *f)]
        if i >= len(forms):
            return
        f = forms[i]; kw = {kk: v for kk, v in zip(('axisp1_idx', 'axisp2_idx', 'opoint_idx'), f) if v is not None}; c = max(c0, cconst_hints(pp, *f)); what = 'hints %r' % (kw,)
    elif kind == 'super':
        d = tuple(i)
        sup, err = call(s.replicate, d)
        res, err = find(sup, p, atol, ex) if not err else (None, err); out['evals'] += 1; out['compared'] += 1
        if err:
            out['violations'].append(viol('no-result', 'exc:' + exc_sig(err), '%s supercell %r raised %r' % (name, d, err[0]), sc)); return
        backs = supercell_back(sup, np.asarray(s.positions), cell)
        if backs is None:
            # atoms of real files may sit outside [0,1): map by lattice equivalence only
            out['outcomes']['real supercell: mapping ambiguous'] = 1; return
        A = canon(base); counts = {}
        for t in res[0]:
            g = tuple(sorted(backs[int(x)] for x in t)); counts[g] = counts.get(g, 0) + 1
        nimg = d[0] * d[1] * d[2]
        badg = [g for g in set(A) | set(counts) if counts.get(g, 0) != (nimg if g in A else 0)]
        strict = [g for g in badg if g in A and c0 * kabsch(pp, np.asarray(base[1][A[g]]))[0] <= 0.8 * atol]
        if strict:
            out['violations'].append(viol('supercell', 'count', '%s supercell %r: occurrences %r not reported %d times (supercell %d matches, unit cell %d)' % (name, d, strict[:3], nimg, len(res[0]), len(A)), sc))
        out['outcomes']['real supercell matches=%d' % len(res[0])] = 1; out['nontrivial'] = 1
        return
    res, err = find(s2, p2, atol, ex, **kw); out['evals'] += 1
    if err:
        out['violations'].append(viol('no-result', 'exc:' + exc_sig(err), '%s, %s: find raised %r' % (name, what, err[0]), sc)); return
    compare(base, res, pp, atol, c, '%s %s' % (kind, name), sc, out, back=back)
    nin = sum(1 for j in range(len(base[0])) if c * kabsch(pp, np.asarray(base[1][j]))[0] <= 0.8 * atol)
    out['outcomes']['real %s: matches=%d binding(IN)=%d' % (name, len(base[0]), nin)] = 1
    out['nontrivial'] = 1 if nin else 0
    if sc['file'] == 0 and kind == 'shift' and i == 1:
        out['samples'] = [dict(file=name, relation=what, matches=len(base[0]), first_match=list(base[0][0]) if len(base[0]) else None)]


TWISTS = [0.055, -0.055, 0.03, -0.03, 0.0009, 180.055, 179.945, -179.97, 0.5, -0.5, 90.0, 37.0]      # degrees about the pattern's own long axis
WIDE = (['C', 'N', 'O', 'S', 'H'], np.array([(0.0, 0.0, 0.0), (80.0, 0.0, 0.0), (40.0, 30.0, 0.0), (38.0, -10.0, 25.0), (41.0, 1.0, -1.2)]))
WIDE_CELLS = [np.diag([200.0, 210.0, 190.0]), np.array([[200.0, 0, 0], [30.0, 210.0, 0], [-25.0, 40.0, 190.0]])]


def run_scale(sc, ctx, out):
    ex = explorer(ctx)
    if sc['kind'] == 'large':
        # more than 2^15 atoms: the same crystal with the copies stored after the filler / split around it
        ids = []
        for order in (2, 0, 1):
            cell, pos, el, pp, pel, planted = G.large_case(order)
            res, err = find(mk_atoms(el, pos, cell), mk_atoms(pel, pp + np.array([3.3, -1.2, 0.7]), None), 0.05, ex)
            out['evals'] += 1
            if err:
                out['violations'].append(viol('no-result', 'large-exc:' + exc_sig(err), 'structure of %d atoms (atom order %d): find raised %r' % (len(el), order, err[0]), sc)); return
            copy_of = {tuple(sorted(t)): i for i, t in enumerate(planted)}
            ids.append(sorted(copy_of.get(tuple(sorted(int(i) for i in t)), str(tuple(int(i) for i in t))) for t in res[0]))
        out['compared'] += 2
        if ids[0] != ids[1] or ids[0] != ids[2]:
            out['violations'].append(viol('representation-independence', 'large-perm', 'the same 32783-atom crystal stored in three atom orders (copies first / last / split around the filler): copies reported %r vs %r vs %r (copies are numbered 0..4)' % (ids[0], ids[1], ids[2]), sc))
        out['outcomes']['large: copies %r' % (ids[0],)] = 1; out['nontrivial'] = 1 if ids[0] else 0
        return
    # a pattern 80 A long with atoms 30 A off its axis; the pattern is handed over twisted about its own axis by tiny angles
    pel, pp = WIDE; cell = WIDE_CELLS[sc['cell']]
    pre = [np.identity(3), sub_poses(ctx['seed'])[4], sub_poses(ctx['seed'])[1]][sc['pre']]
    s = mk_atoms(pel + ['Kr', 'C'], wrap(np.vstack([(pre @ pp.T).T + np.array([150.0, 170.0, 60.0]), [[5.0, 5.0, 5.0], [9.0, 9.0, 9.0]]]), cell), cell)
    c = cconst(pp)
    base, err = find(s, mk_atoms(pel, pp, None), 0.05, ex)
    out['evals'] += 1
    if err:
        out['violations'].append(viol('no-result', 'twist-exc:' + exc_sig(err), 'find raised %r' % (err[0],), sc)); return
    axis = (pp[1] - pp[0]) / np.linalg.norm(pp[1] - pp[0])
    for t in TWISTS:
        Rt = R.from_rotvec(np.radians(t) * axis).as_matrix()
        for shift in (np.zeros(3), np.array([-7.0, 0.1, 100.0])):
            rel, err = find(s, mk_atoms(pel, (Rt @ pp.T).T + shift, None), 0.05, ex)
            out['evals'] += 1
            if err:
                out['violations'].append(viol('no-result', 'twist-exc:' + exc_sig(err), 'pattern twisted by %g deg: find raised %r' % (t, err[0]), sc)); continue
            compare(base, rel, pp, 0.05, c, 'twist: the 80 A pattern handed over rotated by %g deg about its own axis (atoms up to 30 A off the axis)' % t, sc, out)
    out['outcomes']['twist: base matches %d' % len(base[0])] = 1; out['nontrivial'] = 1 if len(base[0]) else 0


def run_hist(sc, ctx, out):
    """the search does not depend on the past of the objects: same result as on fresh objects with the same content"""
    e = run_history(sc, ctx)
    desc = dict(history=e['name'], base=HIST_BASES[sc['base']], hints=e['kw'])
    if e.get('alias'):
        out['violations'].append(viol('representation-independence', 'history:shared-data', '%s: %s' % (e['name'], e['alias']), sc, case=desc))
    if e.get('skip'):
        out['outcomes']['history skipped'] = 1; return
    out['evals'] += 2; out['compared'] += 1
    if not e['fresh_ok']:
        out['outcomes']['history: no fresh equivalent'] = 1; return
    if bool(e['err']) != bool(e['ferr']):
        out['violations'].append(viol('representation-independence', 'history:exc', 'after the history "%s" the search %s, on fresh objects with the same content it %s' % (
            e['name'], 'raised %r' % (e['err'][0],) if e['err'] else 'returned', 'raised %r' % (e['ferr'][0],) if e['ferr'] else 'returned'), sc, case=desc)); return
    if e['err']:
        return
    a = [tuple(int(i) for i in t) for t in e['res'][0]]; b = [tuple(int(i) for i in t) for t in e['fres'][0]]
    same = a == b and all(np.abs(np.asarray(x, float) - np.asarray(y, float)).max() <= 1e-9 for x, y in zip(e['res'][1], e['fres'][1]))
    if not same:
        out['violations'].append(viol('representation-independence', 'history:differs', 'after the history "%s" the search reports %r; the same search on freshly built objects with the same content reports %r' % (e['name'], a, b), sc, case=desc))
    out['outcomes']['history matches=%d' % len(b)] = 1; out['nontrivial'] = 1 if b else 0


def run(sc, ctx):
    out = dict(evals=0, compared=0, violations=[], outcomes={}, hashes={h64(sc)}, nontrivial=0)
    if sc['kind'] == 'history':
        run_hist(sc, ctx, out)
    elif sc['kind'] in ('large', 'twist'):
        run_scale(sc, ctx, out)
    elif sc['kind'] == 'gen':
        run_gen(sc, ctx, out)
    else:
        run_real(sc, ctx, out)
    return out
