"""Helpers shared by the check modules."""
import traceback, itertools
import numpy as np
from mc.engine.run import bind_repo, HarnessError, h64, jsonable
from mc.ref.structure import KINDS, ATTR, ARITY, RefStructure, view, compare_views, Inconsistent, raw_state

bind_repo()
from mofun import Atoms  # noqa: E402

MASS = {'H': 1.00794, 'C': 12.0107, 'N': 14.0067, 'O': 15.9994, 'F': 18.9984032, 'S': 32.065, 'B': 10.811,
        'Cl': 35.453, 'Br': 79.904, 'Zr': 91.224, 'Xe': 131.293, 'He': 4.002602, 'Kr': 83.798, 'Ar': 39.948,
        'Hf': 178.49, 'P': 30.973762, 'Si': 28.0855, 'Ne': 20.1797}


def viol(clause, sig, msg, sc, **concrete):
    return dict(clause=clause, sig=sig, msg=msg, scenario=sc, concrete=jsonable(concrete))


def call(f, *a, **k):
    """(result, None) or (None, (exception, short traceback))"""
    try:
        return f(*a, **k), None
    except HarnessError:
        raise
    except Exception as e:  # an exception escaping mofun is data for the oracle
        return None, (e, traceback.format_exc()[-1500:])


def exc_sig(err):
    e, tb = err
    lines = [l.strip() for l in tb.strip().split('\n') if l.strip().startswith('File')]
    where = ''
    for l in reversed(lines):
        if '/mofun/' in l:
            where = l.split('/mofun/')[-1].split(',')[0].strip('"') + ':' + l.split(' in ')[-1]
            break
    return '%s@%s' % (type(e).__name__, where)


def mk(n, tables=True, tag='ab', q0=0.1, xf=False, shift=0.0, cell=20.0, dup=False, kinds=KINDS, two_types=True):
    """small typed chain C N O C N O with terms of every kind (those that fit n atoms)"""
    els = ['C', 'N', 'O', 'C', 'N', 'O', 'C', 'N'][:n]
    tl = ['C' + tag[0], 'N' + tag[0], 'O' + tag[0], 'C' + tag[1]]
    types = [0, 1, 2, 3, 1, 2, 0, 1][:n]
    kw = dict(atom_types=types, atom_type_elements=['C', 'N', 'O', 'C'], atom_type_labels=tl, atom_type_masses=[12., 14., 16., 12.01],
              positions=[(1.0 + i + shift, 1.0 + 0.1 * i, 1.0) for i in range(n)], charges=[q0 * (i + 1) for i in range(n)], groups=[i % 2 for i in range(n)])
    if cell is not None:
        kw['cell'] = cell * np.identity(3) if np.isscalar(cell) else np.array(cell, dtype=float)
    if tables:
        kw['pair_coeffs'] = ['pc_%s_%d' % (tag, i) for i in range(4)]
    b = [(i, i + 1) for i in range(n - 1)]; an = [(i, i + 1, i + 2) for i in range(n - 2)]; d = [(i, i + 1, i + 2, i + 3) for i in range(n - 3)]
    im = [(1, 0, 2, 3)] if n >= 4 else []
    if n >= 3:
        b.append((2, 0))
        an += [(1, 2, 0), (2, 0, 1)]            # the other two angles of the ring 0-1-2: same atom set, other centre
    if n >= 4:
        d.append((0, 2, 1, 3))                  # same atom set as (0, 1, 2, 3) in an order that is not its reversal
    if dup and n >= 2:
        b.append((0, 1))
    tup = dict(bond=b, angle=an, dihedral=d, improper=im)
    for k in KINDS:
        t = tup[k] if k in kinds else []
        kw[ATTR[k]] = t
        mult = dict(bond=1, angle=2, dihedral=3, improper=1)[k]          # different id ranges per kind, so that offsets of different kinds differ
        kw[k + '_types'] = [((i % 2) * mult if two_types else 0) for i in range(len(t))]
        if tables and t:
            kw[k + '_type_coeffs'] = ['%s_%s_%d  1.5 # c%d' % (k[0], tag, i, i) for i in range(mult + 2 if two_types else 1)]   # one trailing unused type
        if xf and t:
            if k == 'improper':
                continue
            kw['extra_%s_labels' % k] = ['_x_%s_%s' % (k, tag[0]), '_x_%s_common' % k]
            kw['extra_%s_fields' % k] = [('%s%s%d' % (k[0], tag, j), 'v%d' % j) for j in range(len(t))]
    if xf:
        kw['extra_atom_labels'] = ['_x_atom_%s' % tag[0], '_x_atom_common']
        kw['extra_atom_fields'] = [('a%s%d' % (tag, i), 'w%d' % i) for i in range(n)]
    return Atoms(**kw)


def scribble(x):
    """supported in-place operations a user may perform on an Atoms object *after* it was handed to / returned from the
    library: translate, delete the first atom, pop the last, extend by a foreign bonded pair.  (No element-wise writes into
    the arrays: the properties speak about the library's operations only.)  Failures are ignored - the point is only what
    these operations do to *other* objects."""
    call(x.translate, np.array([0.37, -0.21, 0.13]))
    if len(x.atom_types):
        call(x.__delitem__, [0])
    if len(x.atom_types):
        call(x.pop)
    f = Atoms(elements=['He', 'Ne'], positions=[(9.0, 9.0, 9.0), (9.5, 9.0, 9.0)], bonds=[(0, 1)], bond_types=[0], charges=[0.25, -0.25], groups=[6, 6])
    call(x.extend, f)
    # a fragment that brings extra per-atom / per-bond columns the object does not have yet
    g = Atoms(elements=['Ar', 'Kr'], positions=[(8.0, 9.0, 9.0), (8.5, 9.0, 9.0)], bonds=[(0, 1)], bond_types=[0], extra_atom_labels=['_scribble_site'], extra_atom_fields=[('s0',), ('s1',)],
              extra_bond_labels=['_scribble_bond'], extra_bond_fields=[('b0',)])
    call(x.extend, g)
    call(x.translate, np.array([-0.11, 0.05, 0.5]))


def alias_probe(new, others, what_new='the result'):
    """`new` was just produced from / extended by the objects in `others` = [(name, real Atoms)].  Later supported operations on
    one must not change another.  Destroys all objects; returns a list of messages."""
    msgs = []
    s_new = raw_state(new)
    for name, o in others:
        scribble(o)
        if raw_state(new) != s_new:
            d = [i for i, (x, y) in enumerate(zip(s_new, raw_state(new))) if x != y]
            msgs.append('operating on %s afterwards (translate, delete, pop, extend) changed %s (raw-state fields %r): the two share data' % (name, what_new, d[:6]))
            s_new = raw_state(new)
    s_others = [raw_state(o) for _, o in others]
    scribble(new)
    for (name, o), so in zip(others, s_others):
        if raw_state(o) != so:
            d = [i for i, (x, y) in enumerate(zip(so, raw_state(o))) if x != y]
            msgs.append('operating on %s afterwards (translate, delete, pop, extend) changed %s (raw-state fields %r): the two share data' % (what_new, name, d[:6]))
    return msgs


def untouched(before, objs):
    """[(name, obj)] whose raw state differs from the recorded one -> messages"""
    out = []
    for (name, o), b in zip(objs, before):
        now = raw_state(o)
        if now != b:
            d = [i for i, (x, y) in enumerate(zip(b, now)) if x != y]
            out.append('%s was modified by the call (raw-state fields %r)' % (name, d[:6]))
    return out


def ordered_subsets(n):
    for r in range(1, n + 1):
        for S in itertools.combinations(range(n), r):
            yield S


def as_real_ids(a):
    return dict(atom_types=np.asarray(a.atom_types).tolist(), **{k + '_types': np.asarray(getattr(a, k + '_types')).tolist() for k in KINDS})


def describe(a):
    """compact json-able dump of a real Atoms object for replay files and samples"""
    try:
        return dict(n=len(a.atom_types), atom_types=np.asarray(a.atom_types).tolist(), elements=[str(x) for x in a.atom_type_elements],
                    labels=[str(x) for x in a.atom_type_labels], pair_coeffs=[str(x) for x in a.pair_coeffs],
                    positions=np.round(np.asarray(a.positions, dtype=float), 6).tolist(), cell=None if a.cell is None else np.asarray(a.cell).tolist(),
                    **{ATTR[k]: np.asarray(getattr(a, ATTR[k])).tolist() for k in KINDS},
                    **{k + '_types': np.asarray(getattr(a, k + '_types')).tolist() for k in KINDS},
                    **{k + '_type_coeffs': [str(x) for x in getattr(a, k + '_type_coeffs')] for k in KINDS})
    except Exception as e:
        return 'undescribable: %r' % e
