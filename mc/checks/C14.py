"""C14 - elements inferred from masses are the nearest element within tolerance.

Finite domain, exhaustive: every entry of the mass table x offsets around it x tolerances; every
midpoint and tolerance boundary between mass-adjacent elements (both sides); non-atomic masses
below, in every gap wider than 2 tau, and above.  Each through helpers.guess_elements_from_masses,
through Atoms.load_lmpdat of a generated file (alone, and mixed with a non-atomic type to test the
all-or-nothing fallback), and a write/read cycle of a one-atom structure per element.
Oracle: ref_mass - an element with |dm| < tau and minimal |dm| (ties: any minimiser); if none,
guess_* raises and the loader uses '1'..'n' for all types.
"""
import io
import numpy as np
from mc.checks.common import *
from mofun.atomic_masses import ATOMIC_MASSES
from mofun.helpers import guess_elements_from_masses

ENGINE = 'E1 product'
TABLE = [(str(k), float(v)) for k, v in ATOMIC_MASSES.items()]   # the table is the property's parameter
TAUS = [0.1, 0.01, 0.5]


def ref_mass(m, tau):
    """set of acceptable answers (empty: no element within tolerance)"""
    best = min(abs(m - v) for _, v in TABLE)
    if not best < tau:
        return set()
    return {k for k, v in TABLE if abs(m - v) <= best + 1e-12}


def ambiguous(m, tau):
    """too close to a decision boundary to be decided in floating point"""
    ds = sorted(abs(m - v) for _, v in TABLE)
    return abs(ds[0] - tau) < 1e-9


def masses_for(tau, thorough):
    ms = {}
    srt = sorted(TABLE, key=lambda kv: kv[1])
    offs = [0, 0.5, -0.5, 0.99, -0.99, 1.01, -1.01, 2.0, -2.0] + ([0.25, -0.25, 0.999, -0.999, 1.001, -1.001, 1.5, -1.5] if thorough else [])
    for k, v in TABLE:
        for o in offs:
            ms.setdefault(round(v + o * tau, 9), 'table %s%+.3gtau' % (k, o))
    for (a, ma), (b, mb) in zip(srt, srt[1:]):
        mid = (ma + mb) / 2
        for d in (-1e-6, 1e-6, 0.0):
            ms.setdefault(round(mid + d, 9), 'midpoint %s/%s%+g' % (a, b, d))
        if mb - ma > 2 * tau:
            ms.setdefault(round(mid, 9), 'gap %s/%s' % (a, b))
            ms.setdefault(round(ma + tau * 1.05, 9), 'gap just above %s' % a)
            ms.setdefault(round(mb - tau * 1.05, 9), 'gap just below %s' % b)
    for m in (0.5, 0.0005, srt[0][1] - 1.5 * tau, srt[-1][1] + 1.5 * tau, 500.0):
        if m > 0:
            ms.setdefault(round(m, 9), 'outside')
    return sorted(ms.items())


def lmpdat(masses, labels=None):
    s = "generated (C14)\n\n%d atoms\n0 bonds\n0 angles\n0 dihedrals\n0 impropers\n\n%d atom types\n  0.000000  10.000000 xlo xhi\n  0.000000  10.000000 ylo yhi\n  0.000000  10.000000 zlo zhi\n\nMasses\n\n" % (len(masses), len(masses))
    s += ''.join(" %d %r%s\n" % (i + 1, m, '' if labels is None else ' # ' + labels[i]) for i, m in enumerate(masses))
    s += "\nAtoms\n\n" + ''.join(" %d 1 %d 0.000000 %f 1.000000 1.000000\n" % (i + 1, i + 1, 1.0 + i) for i in range(len(masses)))
    return s


SEQ_ORDERS = [[0.5, 0.1, 0.01, 0.5], [0.01, 0.1, 0.5, 0.01], [0.1, 0.5, 0.1], [0.5, 0.01]]
SEQ_MASSES = [12.3, 58.8, 12.05, 15.95, 39.5, 126.95, 209.0, 1.05, 247.0, 100.0]


def plan(tier, seed):
    scs = []
    for ti, tau in enumerate(TAUS):
        ms = masses_for(tau, tier == 'thorough')
        for i in range(0, len(ms), 25):
            scs.append(dict(kind='mass', tau=ti, lo=i, hi=min(len(ms), i + 25)))
    scs += [dict(kind='cycle', lo=i, hi=min(len(TABLE), i + 10)) for i in range(0, len(TABLE), 10)]
    scs += [dict(kind='sequence', order=o) for o in range(len(SEQ_ORDERS))]
    scs += [dict(kind='labelled', order=o) for o in range(6)]
    scs += [dict(kind='many', n=n, order=o, bad=b) for n in (9, 10, 11, 12, 100, len(TABLE), 256, 257, 300, 1000) for o in (0, 1) for b in (0, 1)]
    return dict(scenarios=scs, exhaustive=True, chunk=4,
                menus=dict(table_entries=len(TABLE), tolerances=TAUS, routes=['guess_elements_from_masses', 'load_lmpdat single type', 'load_lmpdat mixed with non-atomic type', 'load_lmpdat mixed with valid type', 'write/read cycle per element', 'call histories with changing tolerances (same process)', 'many types in one call / file (9 ... 1000)']),
                bounds=dict(), rule='every table entry x offset x tolerance, every adjacent-pair midpoint/boundary, every wide gap; non-trivial = mass within tolerance of >= 2 elements or of none',
                assumptions=['the mass table mofun/atomic_masses.py is the parameter of the property (read from the repo)',
                             'masses within 1e-9 of a tolerance boundary are skipped (undecidable in floating point)'])


def run(sc, ctx):
    out = dict(evals=0, compared=0, violations=[], outcomes={}, hashes=set(), nontrivial=0)
    if sc['kind'] == 'cycle':
        for el, m in TABLE[sc['lo']:sc['hi']]:
            a = Atoms(elements=[el], positions=[(1, 1, 1)], cell=10 * np.identity(3))
            s = io.StringIO(); _, err = call(a.save_lmpdat, s)
            b, err2 = call(Atoms.load_lmpdat, io.StringIO(s.getvalue())) if not err else (None, err)
            out['evals'] += 1; out['compared'] += 1; out['hashes'].add(h64(('cycle', el)))
            exp = ref_mass(float('%10.6f' % m), 0.1)
            if err2:
                out['violations'].append(viol('cycle', 'exc:' + exc_sig(err2), 'write/read cycle of element %s raised %r' % (el, err2[0]), sc)); continue
            got = list(b.elements)
            key = 'cycle ' + ('unique' if len(exp) == 1 else 'tie')
            out['outcomes'][key] = out['outcomes'].get(key, 0) + 1
            if len(got) != 1 or got[0] not in exp or (len(exp) == 1 and got[0] != el):
                out['violations'].append(viol('cycle', 'cycle', 'element %s (mass %r) came back as %r after a write/read cycle; nearest within 0.1: %s' % (el, m, got, sorted(exp)), sc, element=el))
        return out
    if sc['kind'] == 'many':
        # many atom types in one call / one file: table order or reversed, optionally with one non-atomic mass at the end
        n = sc['n']; tab = TABLE if sc['order'] == 0 else TABLE[::-1]
        masses = [round(tab[(i * 7) % len(tab)][1] + 0.004 * ((i % 5) - 2), 6) for i in range(n)]
        if sc['bad']:
            masses[-1] = 150.0
        exps = [ref_mass(m, 0.1) for m in masses]
        want = 'type numbers' if sc['bad'] else 'the nearest elements'
        for route in ('helper', 'loader', 'cycle'):
            if route == 'helper':
                r, err = call(guess_elements_from_masses, list(masses), max_delta=0.1)
                got = None if err else [str(x) for x in r]
            elif route == 'loader':
                b, err = call(Atoms.load_lmpdat, io.StringIO(lmpdat(masses)), guess_atol=0.1)
                got = None if err else [str(x) for x in b.atom_type_elements]
                if err:
                    out['violations'].append(viol('loader', 'many-exc:' + exc_sig(err), 'load_lmpdat raised %r for a file with %d atom types' % (err[0], n), sc)); continue
                if got == [str(i + 1) for i in range(n)]:
                    got = None
            else:
                if sc['bad']:
                    continue
                els = [sorted(e)[0] for e in exps]
                a = Atoms(elements=els, positions=[(1.0 + 0.001 * i, 1, 1) for i in range(n)], cell=10 * np.identity(3))
                st = io.StringIO(); _, err = call(a.save_lmpdat, st)
                b, err = call(Atoms.load_lmpdat, io.StringIO(st.getvalue())) if not err else (None, err)
                if err:
                    out['violations'].append(viol('cycle', 'many-exc:' + exc_sig(err), 'write/read cycle of %d elements raised %r' % (n, err[0]), sc)); continue
                got = [str(x) for x in b.elements]
                exps_c = [ref_mass(float('%10.6f' % ATOMIC_MASSES[e]), 0.1) for e in els]
                bad = [(i, els[i], got[i]) for i in range(n)] if len(got) != n else [(i, els[i], got[i]) for i in range(n) if got[i] not in exps_c[i]]
                out['evals'] += 1; out['compared'] += 1
                if bad:
                    out['violations'].append(viol('cycle', 'many-cycle', 'write/read cycle of a structure with %d elements (one type each): %d atoms come back with another element, first (index, written, read) %r' % (n, len(bad), bad[:4]), sc))
                continue
            out['evals'] += 1; out['compared'] += 1
            if sc['bad']:
                if got is not None:
                    out['violations'].append(viol('no-invention', 'many-' + route, '%s with %d masses of which the last (150.0) is no element: got elements %r..., expected %s' % (route, n, got[-3:], want), sc))
            elif got is None or len(got) != n or any(g not in e for g, e in zip(got, exps)):
                first = None if got is None or len(got) != n else [(i, masses[i], got[i], sorted(exps[i])) for i in range(n) if got[i] not in exps[i]][:3]
                out['violations'].append(viol('nearest' if route == 'helper' else 'loader', 'many-' + route, '%s with %d genuine element masses: %s; first wrong (index, mass, got, nearest) %r' % (
                    route, n, 'no elements (raised / type numbers)' if got is None else '%d elements' % len(got), first), sc))
        out['hashes'].add(h64(('many', n, sc['order'], sc['bad']))); out['nontrivial'] += 1; out['outcomes']['many types'] = 1
        return out
    if sc['kind'] == 'labelled':
        # files whose Masses lines carry free-text labels, loaded one after the other in one process: the same labels stand for other
        # masses in the next file; elements must follow the masses of the file at hand
        files = [([12.0107, 1.00794], ['A', 'B']), ([14.0067, 15.9994], ['A', 'B']), ([500.0, 1.00794], ['A', 'B']), ([15.9994, 12.0107], ['B', 'A']), ([1.00794], ['A']), ([32.065, 35.453, 12.0107], ['A', 'B', 'C'])]
        import itertools as _it
        perm = list(_it.permutations(range(len(files))))[sc['order'] * 97 % 720]
        for step, fi in enumerate(perm):
            masses, labels = files[fi]
            b, err = call(Atoms.load_lmpdat, io.StringIO(lmpdat(masses, labels)))
            out['evals'] += 1; out['compared'] += 1
            exps = [ref_mass(m, 0.1) for m in masses]
            if err:
                out['violations'].append(viol('loader', 'labelled-exc:' + exc_sig(err), 'load_lmpdat raised %r' % (err[0],), sc)); continue
            got = [str(x) for x in b.atom_type_elements]
            ok = (len(got) == len(masses) and all(g in e for g, e in zip(got, exps))) if all(exps) else got == [str(i + 1) for i in range(len(masses))]
            if not ok:
                out['violations'].append(viol('loader', 'labelled-history', 'file %d of the sequence %r (masses %r labelled %r): elements %r, the masses say %r' % (
                    step + 1, [files[i][0] for i in perm[:step + 1]], masses, labels, got, [sorted(e) for e in exps] if all(exps) else 'type numbers'), sc))
        out['hashes'].add(h64(('labelled', sc['order']))); out['nontrivial'] += 1; out['outcomes']['labelled files in sequence'] = 1
        return out
    if sc['kind'] == 'sequence':
        # histories of calls in one process: the answer for a mass must depend on the tolerance of *this* call only
        for route in ('helper', 'loader'):
            for tau in SEQ_ORDERS[sc['order']]:
                for m in SEQ_MASSES:
                    exp = ref_mass(m, tau)
                    if route == 'helper':
                        r, err = call(guess_elements_from_masses, [m], max_delta=tau)
                        got = None if err else r
                    else:
                        b, err = call(Atoms.load_lmpdat, io.StringIO(lmpdat([m])), guess_atol=tau)
                        got = None if err else [str(x) for x in b.atom_type_elements]
                        if got == ['1']:
                            got = None
                    out['evals'] += 1; out['compared'] += 1
                    ok = (got is None and not exp) or (got is not None and len(got) == 1 and got[0] in exp)
                    if not ok:
                        out['violations'].append(viol('nearest', 'history-dependent', 'after the tolerance sequence %r, %s with tolerance %g gives %r for mass %r; nearest within tolerance: %s' % (
                            SEQ_ORDERS[sc['order']], route, tau, got, m, sorted(exp)), sc))
        out['hashes'].add(h64(('seq', sc['order']))); out['nontrivial'] += 1
        out['outcomes']['sequence'] = 1
        return out
    tau = TAUS[sc['tau']]
    ms = masses_for(tau, ctx['tier'] == 'thorough')[sc['lo']:sc['hi']]
    for m, why in ms:
        if ambiguous(m, tau):
            continue
        exp = ref_mass(m, tau)
        out['hashes'].add(h64((m, tau)))
        if len(exp) != 1:
            out['nontrivial'] += 1
        key = 'tau=%g %s' % (tau, 'none' if not exp else ('unique' if len(exp) == 1 else 'tie'))
        out['outcomes'][key] = out['outcomes'].get(key, 0) + 1
        # route 1: helper
        r, err = call(guess_elements_from_masses, [m], max_delta=tau)
        out['evals'] += 1; out['compared'] += 1
        if exp and (err or len(r) != 1 or r[0] not in exp):
            out['violations'].append(viol('nearest', 'helper', 'guess_elements_from_masses([%r], max_delta=%g) = %s; nearest element(s) within tolerance: %s (%s)' % (
                m, tau, 'raised %r' % err[0] if err else r, sorted(exp), why), sc, mass=m, tau=tau))
        if not exp and not err:
            out['violations'].append(viol('no-invention', 'helper', 'guess_elements_from_masses([%r], max_delta=%g) = %r but no element lies within the tolerance (%s)' % (m, tau, r, why), sc, mass=m, tau=tau))
        # route 2: loader, single type / mixed with a valid type / mixed with a non-atomic type
        for mix, masses in (('alone', [m]), ('with C', [12.0107, m]), ('with non-atomic', [m, 150.0 if tau < 0.3 else 160.0])):
            b, err = call(Atoms.load_lmpdat, io.StringIO(lmpdat(masses)), guess_atol=tau)
            out['evals'] += 1; out['compared'] += 1
            if err:
                out['violations'].append(viol('loader', 'exc:' + exc_sig(err), 'load_lmpdat raised %r for masses %r' % (err[0], masses), sc)); continue
            got = [str(x) for x in b.atom_type_elements]
            exps = [ref_mass(x, tau) for x in masses]
            if all(exps):
                ok = len(got) == len(masses) and all(g in e for g, e in zip(got, exps))
                want = [sorted(e) for e in exps]
            else:
                ok = got == [str(i + 1) for i in range(len(masses))]
                want = [str(i + 1) for i in range(len(masses))]
            if not ok:
                out['violations'].append(viol('loader', 'loader-' + mix.split()[0], 'load_lmpdat(guess_atol=%g) of masses %r gave elements %r, expected %r (%s)' % (tau, masses, got, want, why), sc, masses=masses, tau=tau))
    if sc['lo'] == 0 and sc['tau'] == 0:
        out['samples'] = [dict(mass=m, why=w, tau=tau, acceptable=sorted(ref_mass(m, tau))) for m, w in ms[:6]]
    return out
