"""Geometric reference functions (no import of mofun): Kabsch fit, amplification constant of the
three-point rotation construction, brute-force periodic matcher with IN / GRAY / OUT classes."""
import itertools
import numpy as np


def kabsch(P, X):
    """best proper rotation+translation carrying P onto X: (max deviation, rmsd, R, t)"""
    P = np.asarray(P, float); X = np.asarray(X, float)
    if len(P) == 1:
        return 0.0, 0.0, np.identity(3), X[0] - P[0]
    pc = P.mean(0); xc = X.mean(0)
    Pc = P - pc; Xc = X - xc
    U, S, Vt = np.linalg.svd(Pc.T @ Xc)
    d = np.sign(np.linalg.det(Vt.T @ U.T)) or 1.0
    Rm = Vt.T @ np.diag([1, 1, d]) @ U.T
    dev = np.linalg.norm((Rm @ Pc.T).T - Xc, axis=1)
    return float(dev.max()), float(np.sqrt((dev ** 2).mean())), Rm, xc - Rm @ pc


def subset_rmsd_bound(P, X, n_extreme=6, n_worst=2):
    """lower bound on the smallest max-deviation any proper rigid motion of P onto X can reach: for every
    subset S the Kabsch rmsd of (P[S], X[S]) is <= the rmsd of any motion on S <= its max deviation on S
    <= its max deviation on all atoms.  Subsets: the worst-fitting atoms of the full fit, each with every
    triple of a farthest-point sample of the pattern.  (A candidate that fits in the mean but has one atom
    far off - the mirror image of a many-atom chiral pattern - has a small full rmsd and a large subset one.)"""
    P = np.asarray(P, float); X = np.asarray(X, float); k = len(P)
    full = kabsch(P, X)
    best = full[1]
    if k <= 4:
        return best
    _, _, Rm, t = full
    dev = np.linalg.norm((Rm @ P.T).T + t - X, axis=1)
    worst = [int(i) for i in np.argsort(-dev)[:n_worst]]
    ext = [int(np.argmax(np.linalg.norm(P - P.mean(0), axis=1)))]
    while len(ext) < min(n_extreme, k):
        d = np.min(np.linalg.norm(P[:, None] - P[ext][None], axis=2), axis=1)
        ext.append(int(np.argmax(d)))
    for w in worst:
        for tri in itertools.combinations([e for e in ext if e != w], 3):
            S = [w] + list(tri)
            best = max(best, kabsch(P[S], X[S])[1])
    return best


def resolve_hints(p, a1=None, a2=None, op=None):
    """effective (axis point 1, axis point 2, orientation point) by the documented rule: missing
    axis points default to the farthest pair / the point farthest from the given one; the
    orientation point defaults to the point farthest from the axis (patterns of > 2 atoms)"""
    p = np.asarray(p, float); n = len(p)
    if n == 1:
        return 0, 0, None
    dm = np.linalg.norm(p[:, None] - p[None], axis=2)
    if a1 is None and a2 is None:
        a1, a2 = np.unravel_index(np.argmax(dm), dm.shape)
    elif a1 is None or a2 is None:
        a1 = a1 if a1 is not None else a2
        a2 = int(np.argmax(dm[a1]))
    if n > 2 and op is None:
        u = p[a2] - p[a1]; u = u / np.linalg.norm(u)
        rel = p - p[a1]; perp = rel - np.outer(rel @ u, u)
        op = int(np.argmax(np.linalg.norm(perp, axis=1)))
    return int(a1), int(a2), (None if op is None else int(op))


def default_candidates(p, a1=None, a2=None, op=None, tie=1e-9):
    """every (a1, a2, op) the documented defaults could resolve to when distances tie (a pattern with two
    equally far pairs has no unique default axis; which one is picked depends on rounding)"""
    p = np.asarray(p, float); n = len(p)
    if n == 1:
        return [(0, 0, None)]
    dm = np.linalg.norm(p[:, None] - p[None], axis=2)
    if a1 is None and a2 is None:
        axes = [(int(i), int(j)) for i in range(n) for j in range(n) if i != j and dm[i, j] >= dm.max() - tie]
    elif a1 is None or a2 is None:
        g = a1 if a1 is not None else a2
        axes = [(int(g), int(j)) for j in range(n) if j != g and dm[g, j] >= dm[g].max() - tie]
    else:
        axes = [(int(a1), int(a2))]
    out = []
    for e1, e2 in axes:
        if n > 2 and op is None:
            u = p[e2] - p[e1]; u = u / np.linalg.norm(u)
            rel = p - p[e1]; pn = np.linalg.norm(rel - np.outer(rel @ u, u), axis=1)
            out += [(e1, e2, int(o)) for o in range(n) if pn[o] >= pn.max() - tie]
        else:
            out.append((e1, e2, None if op is None else int(op)))
    return out


def hints_valid(p, a1, a2, op, min_off_axis=0.3):
    """valid for every tie-equivalent resolution of the defaults"""
    return all(_hints_valid1(p, e1, e2, eo, min_off_axis) for e1, e2, eo in default_candidates(p, a1, a2, op)) if len(p) > 1 else _hints_valid1(p, a1, a2, op, min_off_axis)


def cconst_hints(p, a1=None, a2=None, op=None):
    """largest amplification constant over the tie-equivalent resolutions of the defaults"""
    p = np.asarray(p, float)
    if len(p) == 1:
        return 1.0
    return max(cconst(p, e1, e2, eo) for e1, e2, eo in default_candidates(p, a1, a2, op))


def _hints_valid1(p, a1, a2, op, min_off_axis=0.3):
    """three distinct points after defaults are resolved, orientation point off the axis"""
    p = np.asarray(p, float); n = len(p)
    e1, e2, eo = resolve_hints(p, a1, a2, op)
    if n == 1:
        return a1 in (None, 0) and a2 is None and op is None
    if e1 == e2:
        return False
    if n == 2:
        return op is None
    if eo in (e1, e2):
        return False
    u = p[e2] - p[e1]; L = np.linalg.norm(u)
    if L < 1e-9:
        return False
    u = u / L; rel = p[eo] - p[e1]
    d = np.linalg.norm(rel - (rel @ u) * u)
    collinear = np.linalg.norm((p - p[e1]) - np.outer((p - p[e1]) @ u, u), axis=1).max() < 1e-9
    return collinear or d >= min_off_axis


def cconst(p, a1=None, a2=None, op=None):
    """amplification constant c of the constructed rotation: a copy whose atoms are each within eps of
    a rigid image is reproduced within c*eps (first order).  c = 2 + 2D/L + (2 rho/d)(1 + D/L)."""
    p = np.asarray(p, float); n = len(p)
    if n == 1:
        return 1.0
    a1, a2, op = resolve_hints(p, a1, a2, op)
    u = p[a2] - p[a1]; L = np.linalg.norm(u); u = u / L
    rel = p - p[a1]; D = np.linalg.norm(rel, axis=1).max()
    if n == 2:
        return 2 + 2 * D / L
    perp = rel - np.outer(rel @ u, u); pn = np.linalg.norm(perp, axis=1)
    rho = pn.max(); d = pn[op]
    if rho < 1e-6:
        return 2 + 2 * D / L          # collinear pattern: the twist is irrelevant
    if d < 1e-9:
        return float('inf')
    return 2 + 2 * D / L + (2 * rho / d) * (1 + D / L)


def wrap(pos, cell):
    f = np.asarray(pos, float) @ np.linalg.inv(cell)
    f = f - np.floor(f)
    f[f >= 1.0] = 0.0
    return f @ cell


def frac(pos, cell):
    return np.asarray(pos, float) @ np.linalg.inv(cell)


def lattice_residual(delta, cell):
    """distance of delta from the nearest lattice vector, in fractional units (max-norm)"""
    f = np.asarray(delta, float) @ np.linalg.inv(cell)
    return float(np.abs(f - np.round(f)).max())


def perpendicular_widths(cell):
    cell = np.asarray(cell, float); vol = abs(np.linalg.det(cell))
    return [vol / np.linalg.norm(np.cross(cell[(i + 1) % 3], cell[(i + 2) % 3])) for i in range(3)]


def image_offsets(cell, r=2):
    rng = range(-r, r + 1)
    mult = np.array([(i, j, k) for i in rng for j in rng for k in rng])
    return mult, mult @ np.asarray(cell, float)


def ref_match(spos, sel, cell, ppos, pel, atol, c, images=2):
    """brute-force periodic matcher.  Returns {group (sorted unit-cell index tuple): (class, eps, rmsd)}
    with class IN (some ordering has c*eps <= 0.8 atol), OUT (every ordering has rmsd > 1.8 atol + 1e-3 - over all
    atoms or over a 4-atom subset, see subset_rmsd_bound - or a pairwise discrepancy > 3.7 atol; orderings pruned
    at 4 atol are OUT by construction), else GRAY."""
    spos = np.asarray(spos, float); ppos = np.asarray(ppos, float)
    n = len(spos); k = len(ppos)
    mult, offs = image_offsets(cell, images)
    zero = int(np.where((mult == 0).all(axis=1))[0][0])
    img_pos = (spos[None, :, :] + offs[:, None, :]).reshape(-1, 3)
    img_idx = np.tile(np.arange(n), len(offs))
    sel = list(sel)
    pd = np.linalg.norm(ppos[:, None] - ppos[None], axis=2)
    loose = 4 * atol
    diam = pd.max() + 2 * loose
    order = {'IN': 0, 'GRAY': 1, 'OUT': 2}
    groups = {}

    def rec(tup, cands):
        i = len(tup)
        if i == k:
            idx = list(tup)
            X = img_pos[idx]
            eps, rmsd, _, _ = kabsch(ppos, X)
            disc = np.abs(np.linalg.norm(X[:, None] - X[None], axis=2) - pd).max() if k > 1 else 0.0
            if c * eps <= 0.8 * atol:
                cls = 'IN'
            elif rmsd > 1.8 * atol + 1e-3 or disc > 3.7 * atol or (k > 4 and subset_rmsd_bound(ppos, X) > 1.8 * atol + 1e-3):
                cls = 'OUT'
            else:
                cls = 'GRAY'
            uc = img_idx[idx]
            if len(set(uc.tolist())) < k:
                return                      # two images of one atom: outside the property's domain
            g = tuple(sorted(int(x) for x in uc))
            if g not in groups or order[cls] < order[groups[g][0]]:
                groups[g] = (cls, eps, rmsd)
            return
        for cand in cands[i]:
            if cand in tup:
                continue
            ok = True
            for j in range(i):
                if abs(np.linalg.norm(img_pos[cand] - img_pos[tup[j]]) - pd[i, j]) > loose:
                    ok = False; break
            if ok:
                rec(tup + (cand,), cands)

    for a in range(n):
        if sel[a] != pel[0]:
            continue
        a_img = zero * n + a
        near = np.where(np.linalg.norm(img_pos - img_pos[a_img], axis=1) <= diam)[0]
        cands = [[a_img]] + [[int(x) for x in near if sel[img_idx[x]] == pel[i]] for i in range(1, k)]
        rec((a_img,), cands)
    return groups


def rigid_residual(P, X, Rm):
    """max per-coordinate residual of X - (R P + t) for the best translation t (per-coordinate
    mid-range of the residuals, never worse than any other translation in the max-norm)"""
    P = np.asarray(P, float); X = np.asarray(X, float)
    r = X - (Rm @ P.T).T
    t = (r.max(axis=0) + r.min(axis=0)) / 2
    return float(np.abs(r - t).max())
