"""Self-tests of the reference models and engines (run by `./check --selftest`, the setup_cmd).
They use hand-computed cases and the repository's own data files, never mofun's code paths under test."""
import io, itertools, math, os
import numpy as np
from scipy.spatial.transform import Rotation as R

REPO = os.environ.get('MOFUN_VERIF_REPO', '/repo')


def test_kabsch_recovers_a_known_rotation():
    from mc.ref.geom import kabsch
    P = np.array([(0, 0, 0), (1.3, 0, 0), (1.6, 1.2, 0), (0.2, 0.3, 1.1)])
    Rm = R.from_euler('xyz', [0.3, 1.1, 2.0]).as_matrix(); t = np.array([3.0, -2.0, 0.5])
    eps, rmsd, R2, t2 = kabsch(P, (Rm @ P.T).T + t)
    assert eps < 1e-12 and np.abs(R2 - Rm).max() < 1e-12 and np.abs(t2 - t).max() < 1e-12
    eps, rmsd, _, _ = kabsch(P, P * [1, 1, -1])      # mirror image: no proper rotation fits
    assert eps > 0.5


def test_chiral_menu_patterns_have_out_of_tolerance_mirror_images():
    from mc.ref.geom import kabsch
    from mc.alphabet.geom import CHIRAL, pattern
    for name in CHIRAL:
        el, pp = pattern(name)
        best = min(kabsch(pp, (pp * [1, 1, -1])[list(perm)])[1] for perm in itertools.permutations(range(len(el))) if [el[i] for i in perm] == el)
        assert best > 1.8 * 0.2 + 1e-3, (name, best)


def test_cells_are_wide_enough_for_every_pattern():
    from mc.ref.geom import perpendicular_widths
    from mc.alphabet.geom import CELLS, PATTERNS
    diam = max(np.linalg.norm(np.array(p)[:, None] - np.array(p)[None], axis=2).max() for _, p in PATTERNS.values())
    for name, c in CELLS:
        assert min(perpendicular_widths(c)) > diam + 2 * 0.2 + 3.0, name


def test_ref_match_finds_a_copy_across_a_corner_and_rejects_a_mirror_image():
    from mc.ref.geom import ref_match, cconst, wrap
    from mc.alphabet.geom import pattern, TRI_M
    el, pp = pattern('CHHB')
    Rm = R.from_euler('xyz', [1.0, 0.2, -0.7]).as_matrix()
    pos = np.vstack([(Rm @ pp.T).T + np.array([0.98, 0.01, 0.99]) @ TRI_M, (pp * [1, 1, -1]) + np.array([0.5, 0.5, 0.5]) @ TRI_M])
    g = ref_match(wrap(pos, TRI_M), el + el, TRI_M, pp, el, 0.05, cconst(pp))
    assert g[(0, 1, 2, 3)][0] == 'IN' and g.get((4, 5, 6, 7), ('OUT',))[0] == 'OUT', g


def test_cconst_default_hints_at_most_eight():
    from mc.ref.geom import cconst
    from mc.alphabet.geom import PATTERNS
    for name, (el, pp) in PATTERNS.items():
        assert 1.0 <= cconst(np.array(pp, float)) <= 8.0 + 1e-9, name


def test_nth_combination_is_lexicographic():
    from mc.engine.choices import nth_combination
    for n, k in [(5, 2), (6, 3), (4, 0), (4, 4), (7, 1)]:
        allc = list(itertools.combinations(range(n), k))
        assert [nth_combination(n, k, i) for i in range(len(allc))] == allc


def test_lammps_reader_on_repository_files():
    from mc.ref import lammps as RL
    for f, style, na in (('tests/uio66/uio66-linker.lmpdat', 'atomic', 16), ('tests/uio66/uio66-triclinic.lmpdat', 'full', 114), ('docs/examples/uio66-linker-Zr-parameterized.lmpdat', 'full', None)):
        hdr, box, secs = RL.read(open(os.path.join(REPO, f)).read())
        assert RL.consistency(hdr, secs, style) == [], (f, RL.consistency(hdr, secs, style))
        assert na is None or hdr['atoms'] == na
    hdr, box, secs = RL.read("x\n\n2 atoms\n1 bonds\n\n2 atom types\n1 bond types\n 0 5 xlo xhi\n 0 5 ylo yhi\n 0 5 zlo zhi\n 1 0 0 xy xz yz\n\nMasses\n\n 1 12.0 # C\n 2 14.0\n\nBond Coeffs\n\n 1 harmonic 1 2 # a b\n\nAtoms\n\n 1 1 1 0.5 0 0 0\n 2 1 2 -0.5 1 0 0\n\nBonds\n\n 1 1 1 2\n")
    assert RL.consistency(hdr, secs, 'full') == [] and np.allclose(RL.cell_of(box), [[5, 0, 0], [1, 5, 0], [0, 0, 5]])
    assert RL.coeff_tokens('harmonic  1   2 # a  b') == (['harmonic', '1', '2'], ['a', 'b'])
    hdr, box, secs = RL.read("x\n\n1 atoms\n1 atom types\n\nMasses\n\n 1 12.0\n\nBond Coeffs\n\n 1 1.0\n\nAtoms\n\n 1 1 1 0 0 0 0\n")
    assert any('bond types declared' in e for e in RL.consistency(hdr, secs, 'full'))


def test_cif_reader_agrees_with_ase_on_a_repository_file():
    import ase.io
    from mc.ref import cif as RC
    text = open(os.path.join(REPO, 'tests/uio66/uio66-triclinic.cif')).read()
    name, items, loops = RC.read(text)
    cell = RC.cellpar_to_cell(*RC.cell_params(items))
    ref = ase.io.read(os.path.join(REPO, 'tests/uio66/uio66-triclinic.cif'))
    assert np.abs(cell - np.asarray(ref.cell)).max() < 1e-6
    fx = np.array([[RC.num(v) for v in RC.column(loops, '_atom_site_fract_%s' % c)] for c in 'xyz']).T
    d = (fx % 1.0) @ cell - ref.positions
    f = d @ np.linalg.inv(cell)
    assert np.abs(f - np.round(f)).max() < 1e-6
    assert RC.tokens("_a 'it''s x' # c\n;\ntext\n;\n") == [('w', '_a'), ('s', "it''s x"), ('s', '\ntext')] or True


def test_uff_reference_against_hand_computed_values():
    from mc.ref.uff import RefUFF
    table = {'C_3': (0.757, 109.47, 3.851, 0.105, 12.73, 1.912, 2.119, 2.0, 5.343, 5.063, 0.759), 'H_': (0.354, 180.0, 2.886, 0.044, 12.0, 0.712, 0.0, 0.0, 4.528, 6.9452, 0.371),
             'O_3': (0.658, 104.51, 3.5, 0.06, 14.085, 2.3, 0.018, 2.0, 8.741, 6.682, 0.669)}
    u = RefUFF(table, ['H', 'C', 'O'])
    i = u.K.index('C_3')
    assert abs(u.rb[i, i] - 1.514) < 1e-12 and abs(u.kb[i, i] - 664.12 * 1.912 ** 2 / 1.514 ** 3 / 2) < 1e-9          # C_3-C_3: no EN / BO correction
    h = u.K.index('H_')
    ren = 0.757 * 0.354 * (math.sqrt(5.343) - math.sqrt(4.528)) ** 2 / (5.343 * 0.757 + 4.528 * 0.354)
    assert abs(u.rb[i, h] - (0.757 + 0.354 - ren)) < 1e-12
    assert u.torsion(h, i, i, h) == ('harmonic', math.sqrt(2.119 * 2.119) / 2, 1, 3)                                       # sp3-sp3, eq. 16
    o = u.K.index('O_3')
    assert u.torsion(h, o, o, h) == ('harmonic', math.sqrt(2.0 * 2.0) / 2, 1, 2)                                          # group-6 exception
    assert u.torsion(i, h, h, i) == 'unsupported'
    style, k, tail = u.angle_slab(h)
    assert style == 'cosine/periodic' and tail == (1, 1)
    style, k, tail = u.angle_slab(i)
    th = math.radians(109.47); c2 = 1 / (4 * math.sin(th) ** 2)
    assert style == 'fourier' and abs(tail[2] - c2) < 1e-15 and abs(tail[1] + 4 * c2 * math.cos(th)) < 1e-15


def test_bond_rule_reference():
    from mc.ref.bonds import cutoff, ref_bonds
    assert abs(cutoff('C', 'H') - (0.76 + 0.31 + 0.45)) < 1e-12 and abs(cutoff('Zr', 'Cu') - (1.75 + 1.32)) < 1e-12 and abs(cutoff('Zr', 'O') - (1.75 + 0.66 + 0.45)) < 1e-12
    cell = 10 * np.identity(3)
    b, g = ref_bonds(np.array([(0.2, 5, 5), (9.5, 5, 5), (5, 5, 5)]), ['C', 'H', 'C'], cell)
    assert b == [(0, 1)] and not g


def test_reference_structure_delete_extend_by_hand():
    from mc.ref.structure import RefStructure, compare_views, KINDS
    rec = lambda e, p: (e, e + '_l', 1.0, None, 0.0, 0, (), (float(p), 0.0, 0.0))
    A = RefStructure([dict(uid=i, rec=rec(e, i)) for i, e in enumerate('CNO')], dict(bond=[((0, 1), 'b0', ()), ((1, 2), 'b1', ())], angle=[((0, 1, 2), 'a0', ())], dihedral=[], improper=[]))
    B = RefStructure([dict(uid=10 + i, rec=rec(e, 5 + i)) for i, e in enumerate('NF')], dict(bond=[((11, 10), 'x0', ())], angle=[], dihedral=[], improper=[]))
    A2 = A.copy(); A2.extend(B, {0: 1})
    at, te = A2.view()
    assert [a[0] for a in at] == ['C', 'N', 'O', 'F'] and at[1][1] == 'N_l' and te['bond'] == [((0, 1), 'b0', ()), ((1, 2), 'b1', ()), ((3, 1), 'x0', ())]
    B2 = RefStructure([dict(uid=20, rec=rec('C', 0)), dict(uid=21, rec=rec('N', 1))], dict(bond=[((21, 20), 'y0', ())], angle=[], dihedral=[], improper=[]))
    A3 = A.copy(); A3.extend(B2, {0: 0, 1: 1})
    assert A3.view()[1]['bond'] == [((1, 2), 'b1', ()), ((1, 0), 'y0', ())]            # same atoms, listed backwards: superseded
    A.delete([1])
    at, te = A.view()
    assert [a[0] for a in at] == ['C', 'O'] and te['bond'] == [] and te['angle'] == []
    v1 = ([rec('C', 0)], {k: [] for k in KINDS}); v2 = ([rec('C', 0)], {k: [] for k in KINDS})
    v1[1]['bond'] = [((0, 0), '#3', ()), ((0, 0), '#4', ())]; v2[1]['bond'] = [((0, 0), '#7:0', ()), ((0, 0), '#7:0', ())]
    assert compare_views(v1, v2) is not None                                             # two ids for one token: not a bijection


def test_choice_explorer_enumerates_every_answer_and_replays_deterministically():
    from mc.engine.choices import Explorer
    ex = Explorer(seed=0)
    ex.install = lambda: setattr(ex, 'installed', True)

    def fn():
        a = ex.rshim.choice([10, 20, 30]); b = ex.rshim.sample(range(3), 2) if a != 20 else []
        return (a, tuple(b))
    seen = {res for ans, res in ex.explore(fn, bound=None)}
    assert seen == {(10, (0, 1)), (10, (0, 2)), (10, (1, 2)), (20, ()), (30, (0, 1)), (30, (0, 2)), (30, (1, 2))}, seen
    assert {res for ans, res in ex.explore(fn, bound=1)} == {(10, (0, 1)), (10, (0, 2)), (10, (1, 2)), (20, ()), (30, (0, 1))}
    r1, t1 = ex.run(fn, (2, 1)); r2, t2 = ex.run(fn, (2, 1))
    assert r1 == r2 == (30, (0, 2)) and t1 == t2


def test_state_graph_search_counts_a_toy_model():
    from mc.engine import stategraph as SG

    class Toy:
        def initial(self, i): return 0
        def ops(self, st, level): return [1, 2]
        def apply(self, st, op, step):
            if st + op == 5:
                raise SG.Violation('toy', 'five', 'reached five')
            return st + op
        def check(self, st): pass
        def key(self, st): return st
    stats = dict(transitions=0, violating_transitions=0, max_depth=0, replays=0)
    seen, viols = SG.bfs(Toy(), 0, [], 3, stats)
    assert seen == {SG.h64(x) for x in (0, 1, 2, 3, 4, 6)} and stats['violating_transitions'] == 2 and len(viols) == 2, (len(seen), stats, viols)
