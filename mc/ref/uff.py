"""UFF functional forms (Rappe et al., JACS 114 (1992) 10024: eqs. 2, 3, 6, 7, 10-13, 16, 17 and the
special cases documented in rough_uff's docstrings), evaluated with numpy over whole index grids of
the parameter table.  Written from the formulas; no import of mofun.  The table itself (UFF4MOF,
MAIN_GROUP_ELEMENTS) is the property's parameter and is passed in."""
import math
import numpy as np

OXYGEN_GROUP = {'O', 'S', 'Se', 'Te', 'Po'}
BO_ONE = {'H_', 'F_', 'Cl', 'Br', 'I_', 'C_3', 'N_3', 'O_3'}


class RefUFF:
    def __init__(self, table, main_group):
        self.K = list(table); self.N = len(self.K)
        T = np.array([table[k] for k in self.K], dtype=float)
        self.r, self.th, self.x1, self.D1, self.Z, self.V, self.U, self.chi = T[:, 0], T[:, 1], T[:, 2], T[:, 3], T[:, 5], T[:, 6], T[:, 7], T[:, 8]
        self.el = [k[0:2].strip('_') for k in self.K]
        self.h = [k[2] if len(k) > 2 else 0 for k in self.K]
        self.main = [e in set(main_group) for e in self.el]
        self.BO = np.array([[self.guess_bo(a, b) for b in self.K] for a in self.K])
        self.kb, self.rb = self.bonds(self.BO)

    @staticmethod
    def guess_bo(a, b):
        s = {a, b}
        if s & BO_ONE:
            return 1.0
        if len(s) == 1 and s <= {'C_2', 'N_2', 'O_2'}:
            return 2.0
        if len(s) == 1 and s <= {'C_R', 'N_R', 'O_R'}:
            return 1.5
        return 1.0

    def bonds(self, bo):
        """(K = k_ij / 2, r_ij) on the whole pair grid for a bond-order grid or scalar"""
        ri, rj = self.r[:, None], self.r[None, :]
        rbo = -0.1332 * (ri + rj) * np.log(bo)
        sq = np.sqrt(self.chi)
        ren = ri * rj * (sq[:, None] - sq[None, :]) ** 2 / (self.chi[:, None] * ri + self.chi[None, :] * rj)
        rij = ri + rj + rbo - ren
        return 664.12 * self.Z[:, None] * self.Z[None, :] / rij ** 3 / 2, rij

    def angle_slab(self, j, rij=None, rjk=None):
        """for centre j: (style, K[i,k], tail) with tail = (b, n) or (C0, C1, C2)"""
        rij = self.rb[:, j][:, None] if rij is None else rij
        rjk = self.rb[j, :][None, :] if rjk is None else rjk
        th = math.radians(self.th[j]); c = math.cos(th)
        rik = np.sqrt(rij ** 2 + rjk ** 2 - 2 * rij * rjk * c)
        kijk = 664.12 * (self.Z[:, None] * self.Z[None, :] / rik ** 5) * (3 * rij * rjk * (1 - c ** 2) - rik ** 2 * c)
        t0 = self.th[j]
        if t0 in (180.0, 120.0, 90.0):
            if t0 == 180.0:
                tail = (1, 1)
            elif t0 == 120.0:
                tail = (-1, 3)
            elif self.h[j] == '3':
                tail = (-1, 2)
            else:
                tail = (1, 4)
            return 'cosine/periodic', kijk, tail
        c2 = 1 / (4 * math.sin(th) ** 2)
        return 'fourier', kijk, (c2 * (2 * c ** 2 + 1), -4 * c2 * c, c2)

    def torsion(self, i, j, k, l, M=1, bo=None):
        """('harmonic', K, d, n) | None | 'unsupported' for types with indices i-j-k-l"""
        h = self.h; el = self.el
        bo = self.BO[j, k] if bo is None else bo
        hj, hk = h[j], h[k]
        if hj == '3' and hk == '3':
            n = 3; v1 = self.V[j]; v2 = self.V[k]
            if el[j] in OXYGEN_GROUP and el[k] in OXYGEN_GROUP:
                n = 2
                v1 = 2.0 if el[j] == 'O' else 6.8
                v2 = 2.0 if el[k] == 'O' else 6.8
            return ('harmonic', math.sqrt(v1 * v2) / M / 2, 1, n)
        if hj in ('2', 'R') and hk in ('2', 'R'):
            v = 5.0 * math.sqrt(self.U[j] * self.U[k]) * (1.0 + 4.18 * math.log(bo)) / M
            return ('harmonic', v / 2, -1, 2)
        if hj in ('2', 'R', '3') and hk in ('2', 'R', '3'):
            if (h[i] == '2' and hj == '2') or (hk == '2' and h[l] == '2'):
                return ('harmonic', 2.0 / M / 2, 1, 3)
            if (hj == '3' and el[j] in OXYGEN_GROUP and el[k] not in OXYGEN_GROUP) or (hk == '3' and el[k] in OXYGEN_GROUP and el[j] not in OXYGEN_GROUP):
                v = 5.0 * math.sqrt(self.U[j] * self.U[k]) * (1.0 + 4.18 * math.log(bo)) / M
                return ('harmonic', v / 2, 1, 2)
            return ('harmonic', 1.0 / M / 2, -1, 6)
        if hj == '1' or hk == '1':
            return None
        if not (self.main[j] and self.main[k]):
            return None
        return 'unsupported'

    def pair(self, i):
        return [self.D1[i], self.x1[i] * 2 ** (-1.0 / 6.0)]


def close(a, b, rel=1e-9):
    return a == b or (math.isfinite(a) and math.isfinite(b) and abs(a - b) <= rel * max(abs(a), abs(b)))


def same_params(p, q, rel=1e-9):
    """equal style / ints / None and floats within rel"""
    if p is None or q is None or isinstance(p, str) or isinstance(q, str):
        return p == q
    if len(p) != len(q):
        return False
    for x, y in zip(p, q):
        if isinstance(x, str) or isinstance(y, str):
            if x != y:
                return False
        elif not close(float(x), float(y), rel):
            return False
    return True
