"""Independent reader of the LAMMPS data format as documented for read_data (no import of mofun):
first line skipped, header keywords, sections by name, '#' comments, 1-based ids."""
import re
import numpy as np

SECTIONS = ['Masses', 'Pair Coeffs', 'Bond Coeffs', 'Angle Coeffs', 'Dihedral Coeffs', 'Improper Coeffs',
            'Atoms', 'Bonds', 'Angles', 'Dihedrals', 'Impropers']
COUNTS = r'atoms|bonds|angles|dihedrals|impropers|atom types|bond types|angle types|dihedral types|improper types'
KIND = [('bond', 'Bonds', 'Bond Coeffs', 2), ('angle', 'Angles', 'Angle Coeffs', 3), ('dihedral', 'Dihedrals', 'Dihedral Coeffs', 4), ('improper', 'Impropers', 'Improper Coeffs', 4)]


class Unreadable(Exception):
    pass


def read(text):
    """-> (header counts, box, sections) with sections[name] = [(tokens, comment|None)]"""
    lines = text.split('\n'); hdr = {}; secs = {}; cur = None; box = {}
    for ln in lines[1:]:                       # LAMMPS always skips line 1
        body = ln.split('#', 1)[0].strip(); comment = ln.split('#', 1)[1].strip() if '#' in ln else None
        if not body:
            continue
        if body in SECTIONS:
            if body in secs:
                raise Unreadable('section %s appears twice' % body)
            cur = body; secs[cur] = []; continue
        if cur is None:
            m = re.match(r'^(\d+)\s+(%s)$' % COUNTS, body)
            if m:
                if m.group(2) in hdr:
                    raise Unreadable('header keyword "%s" appears twice' % m.group(2))
                hdr[m.group(2)] = int(m.group(1)); continue
            t = body.split()
            for key, name in (('xlo xhi', 'x'), ('ylo yhi', 'y'), ('zlo zhi', 'z')):
                if body.endswith(key) and len(t) == 4:
                    box[name] = (float(t[0]), float(t[1])); break
            else:
                if body.endswith('xy xz yz') and len(t) == 6:
                    box['tilt'] = tuple(float(x) for x in t[:3]); continue
                raise Unreadable('unknown header line: %r' % ln)
            continue
        secs[cur].append((body.split(), comment))
    return hdr, box, secs


def consistency(hdr, secs, atom_style):
    """internal consistency of the file: declared counts = section lengths, every id and type id in
    range and consecutive, every Coeffs section has exactly one line per declared type"""
    errs = []
    na = hdr.get('atoms', 0); nat = hdr.get('atom types', 0)
    if len(secs.get('Atoms', [])) != na:
        errs.append('%d atoms declared, Atoms section has %d lines' % (na, len(secs.get('Atoms', []))))
    if na and 'Masses' not in secs:
        errs.append('no Masses section')
    if len(secs.get('Masses', [])) != nat:
        errs.append('%d atom types declared, Masses section has %d lines' % (nat, len(secs.get('Masses', []))))
    if 'Pair Coeffs' in secs and len(secs['Pair Coeffs']) != nat:
        errs.append('%d atom types declared, Pair Coeffs section has %d lines' % (nat, len(secs['Pair Coeffs'])))
    ncol = 7 if atom_style == 'full' else 5
    tcol = 2 if atom_style == 'full' else 1
    for i, (tok, _) in enumerate(secs.get('Atoms', [])):
        if len(tok) != ncol:
            errs.append('atom line %d has %d columns for style %s' % (i + 1, len(tok), atom_style)); break
        if int(tok[0]) != i + 1:
            errs.append('atom ids are not 1..N in order'); break
        if not (1 <= int(tok[tcol]) <= nat):
            errs.append('atom %d has type %s outside 1..%d' % (i + 1, tok[tcol], nat)); break
    for name in ('Masses', 'Pair Coeffs', 'Bond Coeffs', 'Angle Coeffs', 'Dihedral Coeffs', 'Improper Coeffs'):
        for i, (tok, _) in enumerate(secs.get(name, [])):
            if int(tok[0]) != i + 1:
                errs.append('%s ids are not 1..N in order' % name); break
    for kind, sec, csec, arity in KIND:
        n = hdr.get(kind + 's', 0); nt = hdr.get(kind + ' types', 0)
        if len(secs.get(sec, [])) != n:
            errs.append('%d %ss declared, %s section has %d lines' % (n, kind, sec, len(secs.get(sec, []))))
        if csec in secs and len(secs[csec]) != nt:
            errs.append('%d %s types declared but %s has %d lines' % (nt, kind, csec, len(secs[csec])))
        for i, (tok, _) in enumerate(secs.get(sec, [])):
            if len(tok) != 2 + arity:
                errs.append('%s line %d has %d columns' % (kind, i + 1, len(tok))); break
            if int(tok[0]) != i + 1:
                errs.append('%s ids are not 1..N in order' % kind); break
            if not (1 <= int(tok[1]) <= nt):
                errs.append('%s %d has type %s outside 1..%d' % (kind, i + 1, tok[1], nt)); break
            if any(not (1 <= int(x) <= na) for x in tok[2:]):
                errs.append('%s %d refers to an atom id outside 1..%d' % (kind, i + 1, na)); break
    return errs


def cell_of(box):
    if not all(k in box for k in 'xyz'):
        return None
    lx, ly, lz = [box[k][1] - box[k][0] for k in 'xyz']
    xy, xz, yz = box.get('tilt', (0.0, 0.0, 0.0))
    return np.array([[lx, 0, 0], [xy, ly, 0], [xz, yz, lz]])


def coeff_tokens(s):
    """(tokens before the comment, comment words | None) of a coefficient string"""
    s = str(s)
    body, sep, comment = s.partition('#')
    return body.split(), (comment.split() if sep else None)
