"""Reference bond rule (no import of mofun): minimum-image distance over images -2..2 and the
covalent-radius rule, with a frozen copy of the "Covalent radii revisited" table (DOI 10.1039/B801115J)
and the non-metal list as of the pinned commit."""
import itertools
import numpy as np

NON_METALS = ['H', 'D', 'B', 'C', 'N', 'O', 'F', 'P', 'S', 'Cl', 'Se', 'Br', 'I', 'Si']

COVALENT_RADII = {'H': 0.31, 'D': 0.31, 'He': 0.28, 'Li': 1.28, 'Be': 0.96, 'B': 0.84, 'C': 0.76, 'N': 0.71, 'O': 0.66, 'F': 0.57, 'Ne': 0.58, 'Na': 1.66, 'Mg': 1.41, 'Al': 1.21, 'Si': 1.11, 'P': 1.07, 'S': 1.05, 'Cl': 1.02, 'Ar': 1.06, 'K': 2.03, 'Ca': 1.76, 'Sc': 1.7, 'Ti': 1.6, 'V': 1.53, 'Cr': 1.39, 'Mn': 1.3, 'Fe': 1.32, 'Co': 1.26, 'Ni': 1.24, 'Cu': 1.32, 'Zn': 1.22, 'Ga': 1.22, 'Ge': 1.2, 'As': 1.19, 'Se': 1.2, 'Br': 1.2, 'Kr': 1.16, 'Rb': 2.2, 'Sr': 1.95, 'Y': 1.9, 'Zr': 1.75, 'Nb': 1.64, 'Mo': 1.54, 'Tc': 1.47, 'Ru': 1.46, 'Rh': 1.42, 'Pd': 1.39, 'Ag': 1.45, 'Cd': 1.44, 'In': 1.42, 'Sn': 1.39, 'Sb': 1.39, 'Te': 1.38, 'I': 1.39, 'Xe': 1.4, 'Cs': 2.44, 'Ba': 2.15, 'La': 2.07, 'Ce': 2.04, 'Pr': 2.03, 'Nd': 2.01, 'Pm': 1.99, 'Sm': 1.98, 'Eu': 1.98, 'Gd': 1.96, 'Tb': 1.94, 'Dy': 1.92, 'Ho': 1.92, 'Er': 1.89, 'Tm': 1.9, 'Yb': 1.87, 'Lu': 1.87, 'Hf': 1.75, 'Ta': 1.7, 'W': 1.62, 'Re': 1.51, 'Os': 1.44, 'Ir': 1.41, 'Pt': 1.36, 'Au': 1.36, 'Hg': 1.32, 'Tl': 1.45, 'Pb': 1.46, 'Bi': 1.48, 'Po': 1.4, 'At': 1.5, 'Rn': 1.5, 'Fr': 2.6, 'Ra': 2.21, 'Ac': 2.15, 'Th': 2.06, 'Pa': 2, 'U': 1.96, 'Np': 1.9, 'Pu': 1.87, 'Am': 1.8, 'Cm': 1.69}


def cutoff(a, b):
    r = COVALENT_RADII[a] + COVALENT_RADII[b]
    return r + 0.45 if (a in NON_METALS or b in NON_METALS) else r


def min_image_distance(p, q, cell, images=2):
    if cell is None:
        return float(np.linalg.norm(np.asarray(p) - np.asarray(q)))
    rng = range(-images, images + 1)
    offs = np.array([(i, j, k) for i in rng for j in rng for k in rng], dtype=float) @ np.asarray(cell, float)
    return float(np.linalg.norm(np.asarray(p) + offs - np.asarray(q), axis=1).min())


def ref_bonds(pos, els, cell, margin=0.0):
    """(bonded pairs i<j, pairs within `margin` of the cutoff = undecidable)"""
    out = []; gray = []
    for i in range(len(pos)):
        for j in range(i + 1, len(pos)):
            d = min_image_distance(pos[i], pos[j], cell); c = cutoff(els[i], els[j])
            if abs(d - c) <= margin:
                gray.append((i, j))
            elif d < c:
                out.append((i, j))
    return out, gray


def ref_bonds_fast(pos, els, cell, margin=0.0, chunk=200):
    """vectorised ref_bonds for hundreds to thousands of atoms; wide cells only (every perpendicular width more than
    twice the largest cutoff), so that the nearest image is among the 27 neighbours of the rounded fractional separation"""
    pos = np.asarray(pos, float); n = len(pos)
    rad = np.array([COVALENT_RADII[e] for e in els]); nm = np.array([e in NON_METALS for e in els])
    out = []; gray = []
    if cell is not None:
        cell = np.asarray(cell, float); inv = np.linalg.inv(cell)
        offs = np.array([(i, j, k) for i in (-1, 0, 1) for j in (-1, 0, 1) for k in (-1, 0, 1)], dtype=float) @ cell
    for i0 in range(0, n, chunk):
        d = pos[i0:i0 + chunk, None, :] - pos[None, :, :]
        if cell is not None:
            f = d @ inv; d = (f - np.round(f)) @ cell
            dist = np.min(np.linalg.norm(d[:, :, None, :] + offs[None, None, :, :], axis=3), axis=2)
        else:
            dist = np.linalg.norm(d, axis=2)
        cut = rad[i0:i0 + chunk, None] + rad[None, :] + 0.45 * (nm[i0:i0 + chunk, None] | nm[None, :])
        ii, jj = np.where((dist < cut + margin))
        for a, b in zip(ii, jj):
            a = int(a) + i0; b = int(b)
            if a < b:
                (gray if abs(dist[a - i0, b] - cut[a - i0, b]) <= margin else out).append((a, b))
    return sorted(out), sorted(gray)
