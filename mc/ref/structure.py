"""Boring reference structure (no import of mofun).

A RefStructure is a list of atom records and, per kind, a list of term records.  There are no
type ids: every atom/term carries its resolved label / element / mass / coefficient text.  The
*resolved view* of a real Atoms object (every id resolved through the tables) must equal the view of
the reference.  For a term kind without a coefficient table the reference carries an
'#origin:id' token and the comparison is up to a bijection between real type ids and tokens.
"""
import copy
import numpy as np

KINDS = ['bond', 'angle', 'dihedral', 'improper']
ATTR = {'bond': 'bonds', 'angle': 'angles', 'dihedral': 'dihedrals', 'improper': 'impropers'}
ARITY = {'bond': 2, 'angle': 3, 'dihedral': 4, 'improper': 4}
POS_TOL = 1e-9


class Inconsistent(Exception):
    """the real object violates a structural invariant (I1-I3)"""
    def __init__(self, clause, msg):
        super().__init__(msg); self.clause = clause


def _extras(labels, row):
    return tuple(sorted((str(l), str(row[j])) for j, l in enumerate(labels) if str(row[j]) != '.'))


def view(a):
    """resolved view of a real Atoms-like object: (atom records, {kind: term records}).
    atom record = (element, label, mass, pair|None, charge, group, extras, pos)
    term record = (index tuple, coefficient text | '#id', extras).  Raises Inconsistent."""
    pos = np.asarray(a.positions, dtype=float)
    n = len(a.atom_types)
    if not (len(pos) == n == len(a.charges) == len(a.groups) == len(a.extra_atom_fields)):
        raise Inconsistent('I1', 'per-atom arrays differ in length: positions %d types %d charges %d groups %d extra %d' % (
            len(pos), n, len(a.charges), len(a.groups), len(a.extra_atom_fields)))
    if n and pos.shape != (n, 3):
        raise Inconsistent('I1', 'positions has shape %r for %d atoms' % (pos.shape, n))
    xl = list(a.extra_atom_labels)
    xf = np.asarray(a.extra_atom_fields, dtype=object)
    if n and (xf.ndim != 2 or xf.shape[1] != len(xl)):
        raise Inconsistent('I2', 'extra_atom_fields shape %r for %d labels' % (xf.shape, len(xl)))
    nel, nlab, nmass, npair = len(a.atom_type_elements), len(a.atom_type_labels), len(a.atom_type_masses), len(a.pair_coeffs)
    atoms = []
    for i in range(n):
        t = int(a.atom_types[i])
        if t != a.atom_types[i] or not (0 <= t < min(nel, nlab, nmass)):
            raise Inconsistent('I3', 'atom %d has type id %r but tables have %d elements / %d labels / %d masses' % (i, a.atom_types[i], nel, nlab, nmass))
        if npair and t >= npair:
            raise Inconsistent('I3', 'atom %d has type id %d but the pair table has only %d entries' % (i, t, npair))
        pc = str(a.pair_coeffs[t]) if npair else None
        atoms.append((str(a.atom_type_elements[t]), str(a.atom_type_labels[t]), round(float(a.atom_type_masses[t]), 9), pc,
                      round(float(a.charges[i]), 12), int(a.groups[i]), _extras(xl, xf[i]) if len(xl) else (), tuple(float(x) for x in pos[i])))
    terms = {}
    for k in KINDS:
        arr = np.asarray(getattr(a, ATTR[k])); types = np.asarray(getattr(a, k + '_types')); coeffs = getattr(a, k + '_type_coeffs')
        xf = np.asarray(getattr(a, 'extra_%s_fields' % k), dtype=object); xl = list(getattr(a, 'extra_%s_labels' % k))
        m = len(types)
        if not (len(arr) == m == len(xf)):
            raise Inconsistent('I2', '%s arrays differ in length: tuples %d types %d extra %d' % (k, len(arr), m, len(xf)))
        if m and arr.shape != (m, ARITY[k]):
            raise Inconsistent('I2', '%s tuple array has shape %r' % (k, arr.shape))
        if m and (xf.ndim != 2 or xf.shape[1] != len(xl)):
            raise Inconsistent('I2', 'extra_%s_fields shape %r for %d labels' % (k, xf.shape, len(xl)))
        out = []
        for j in range(m):
            tup = tuple(int(x) for x in arr[j])
            if not all(0 <= x < n for x in tup):
                raise Inconsistent('I2', '%s %d refers to atoms %r but there are %d atoms' % (k, j, tup, n))
            t = int(types[j])
            if t < 0 or (len(coeffs) and t >= len(coeffs)):
                raise Inconsistent('I3', '%s %d has type id %d but the coefficient table has %d entries' % (k, j, t, len(coeffs)))
            co = str(coeffs[t]) if len(coeffs) else '#%d' % t
            out.append((tup, co, _extras(xl, xf[j]) if len(xl) else ()))
        terms[k] = out
    return atoms, terms


def raw_state(a):
    """complete observable content of a real Atoms object, in order (E3 canonical form)"""
    def arr(x):
        x = np.asarray(x)
        return (x.shape, tuple(str(v) for v in x.ravel())) if x.dtype == object or x.dtype.kind in 'US' else (x.shape, tuple(np.round(x.astype(float), 9).ravel().tolist()))
    out = [arr(a.positions), arr(a.atom_types), arr(a.charges), arr(a.groups),
           tuple(str(x) for x in a.atom_type_elements), tuple(str(x) for x in a.atom_type_labels),
           tuple(round(float(x), 9) for x in a.atom_type_masses), tuple(str(x) for x in a.pair_coeffs),
           None if a.cell is None else arr(a.cell), tuple(a.extra_atom_labels), arr(a.extra_atom_fields)]
    for k in KINDS:
        out += [arr(getattr(a, ATTR[k])), arr(getattr(a, k + '_types')), tuple(str(x) for x in getattr(a, k + '_type_coeffs')),
                tuple(getattr(a, 'extra_%s_labels' % k)), arr(getattr(a, 'extra_%s_fields' % k))]
    return tuple(out)


class RefStructure:
    """atoms: list of dict(uid, rec) with rec = view atom record; terms[k]: list of (uids, coeff, extras)"""

    def __init__(self, atoms, terms, cell=None):
        self.atoms = atoms; self.terms = terms; self.cell = cell

    @classmethod
    def of(cls, a, uid0=0, origin=None):
        """reference of a (consistent) real object: uids uid0.., table-less ids become '#origin:id'"""
        origin = uid0 if origin is None else origin
        at, te = view(a)
        atoms = [dict(uid=uid0 + i, rec=r) for i, r in enumerate(at)]
        tok = lambda co: co if not co.startswith('#') else '#%s:%s' % (origin, co[1:])
        terms = {k: [(tuple(uid0 + x for x in tup), tok(co), ex) for tup, co, ex in v] for k, v in te.items()}
        return cls(atoms, terms, None if a.cell is None else np.array(a.cell, dtype=float))

    def copy(self):
        return copy.deepcopy(self)

    def view(self):
        idx = {a['uid']: i for i, a in enumerate(self.atoms)}
        return [a['rec'] for a in self.atoms], {k: [(tuple(idx[u] for u in tup), co, ex) for tup, co, ex in v] for k, v in self.terms.items()}

    def __len__(self):
        return len(self.atoms)

    def delete(self, idxs):
        dead = {self.atoms[i]['uid'] for i in idxs}
        self.atoms = [a for a in self.atoms if a['uid'] not in dead]
        self.terms = {k: [t for t in v if not (set(t[0]) & dead)] for k, v in self.terms.items()}

    def extend(self, other, m=None, adopt_type=True):
        """other: RefStructure with disjoint uids; m: other index -> self index (atoms declared identical).
        Mapped atoms are not duplicated but adopt other's type (element/label/mass/pair text) and
        extra fields; other's terms are added between the mapped uids; an existing term on exactly
        the same atoms (forwards or backwards) is superseded."""
        m = m or {}
        umap = {}
        for oi, oa in enumerate(other.atoms):
            if oi in m:
                tgt = self.atoms[m[oi]]; umap[oa['uid']] = tgt['uid']
                e, l, ms, pc, q, g, x, p = tgt['rec']; oe, ol, oms, opc, oq, og, ox, op_ = oa['rec']
                tgt['rec'] = (oe, ol, oms, opc, q, g, ox, p)
            else:
                umap[oa['uid']] = oa['uid']; self.atoms.append(dict(uid=oa['uid'], rec=oa['rec']))
        for k in KINDS:
            new = [(tuple(umap[u] for u in tup), co, ex) for tup, co, ex in other.terms[k]]
            if new:
                keys = {t[0] for t in new} | {t[0][::-1] for t in new}
                self.terms[k] = [t for t in self.terms[k] if t[0] not in keys] + new

    def replace(self, matches, pattern_ref, shared, replace_all):
        """semantic model of a replacement: per match extend-with-identity-map, then delete the matched atoms
        that are not retained.  matches: structure index tuples in pattern order; pattern_ref(mi) -> fresh
        RefStructure of the replacement (None: empty replacement); shared: replacement index -> search index.
        Returns the number of inserted atoms (they are at the tail, in match order)."""
        dead = []; inserted = 0
        for mi, match in enumerate(matches):
            pref = pattern_ref(mi)
            if pref is None:
                dead += list(match); continue
            m = {} if replace_all else {i: match[j] for i, j in shared.items()}
            inserted += len(pref.atoms) - len(m)
            self.extend(pref, m)
            dead += [a for a in match if a not in m.values()]
        self.delete(sorted(set(dead)))
        return inserted

    def subset(self, idx):
        """atoms[idx]: the selected atoms with their resolved type data; no terms, no extra columns"""
        atoms = []
        for n, i in enumerate(idx):
            e, l, ms, pc, q, g, x, p = self.atoms[i]['rec']
            atoms.append(dict(uid=n, rec=(e, l, ms, pc, q, g, (), p)))
        return RefStructure(atoms, {k: [] for k in KINDS}, self.cell)

    def lammps_roundtrip(self, decimals=6):
        """what a LAMMPS data file can carry: positions / charges at the printed precision, no extra columns"""
        for a in self.atoms:
            e, l, ms, pc, q, g, x, p = a['rec']
            a['rec'] = (e, l, round(ms, decimals), pc, round(q, decimals), g, (), tuple(round(v, decimals) for v in p))
        self.terms = {k: [(t, c, ()) for t, c, x in v] for k, v in self.terms.items()}

    def replicated(self, dims):
        """same crystal in an a x b x c cell: image-major, images in any order (compare as sets)"""
        cell = self.cell
        out = RefStructure([dict(a) for a in self.atoms], {k: list(v) for k, v in self.terms.items()}, cell * np.array(dims, dtype=float).reshape(3, 1))
        uid = max([a['uid'] for a in self.atoms] + [0]) + 1
        for i in range(dims[0]):
            for j in range(dims[1]):
                for kk in range(dims[2]):
                    if (i, j, kk) == (0, 0, 0):
                        continue
                    off = i * cell[0] + j * cell[1] + kk * cell[2]; umap = {}
                    for a in self.atoms:
                        e, l, ms, pc, q, g, x, p = a['rec']; umap[a['uid']] = uid
                        out.atoms.append(dict(uid=uid, rec=(e, l, ms, pc, q, g, x, tuple(float(v) for v in np.array(p) + off)))); uid += 1
                    for k in KINDS:
                        out.terms[k] = out.terms[k] + [(tuple(umap[u] for u in t[0]), t[1], t[2]) for t in self.terms[k]]
        return out


def coeff_tokens(s):
    """coefficient text compared token for token: (tokens before the comment, comment words | None)"""
    body, sep, comment = str(s).partition('#')
    return body.split(), (comment.split() if sep else None)


def _split(rec):
    return rec[:-1], np.array(rec[-1], dtype=float)


def _unordered_terms(k, a, b):
    """terms of one kind compared as multisets (their order is not part of any property); table-less type ids
    up to a bijection found by search over the few ids in use"""
    import collections, itertools
    key = lambda t: (t[0], t[2], t[1] if not t[1].startswith('#') else '#')
    norm = lambda t: (t[0], t[2], tuple(coeff_tokens(t[1])[0]) + ('#',) + tuple(coeff_tokens(t[1])[1] or ()) if not t[1].startswith('#') else '#')
    ca = collections.Counter(norm(t) for t in a); cb = collections.Counter(norm(t) for t in b)
    if ca != cb:
        only_a = list((ca - cb).elements())[:3]; only_b = list((cb - ca).elements())[:3]
        return '%ss differ: only in the result %r, only in the reference %r' % (k, only_a, only_b)
    ids = sorted({t[1] for t in a if t[1].startswith('#')}); toks = sorted({t[1] for t in b if t[1].startswith('#')})
    if len(ids) != len(toks):
        return '%s: %d type ids in use for %d distinct term types of the reference (ids %r)' % (k, len(ids), len(toks), ids)
    if not ids:
        return None
    want = collections.Counter((t[0], t[2], t[1]) for t in b if t[1].startswith('#'))
    if len(ids) > 7:
        return None
    for perm in itertools.permutations(toks):
        m = dict(zip(ids, perm))
        if collections.Counter((t[0], t[2], m[t[1]]) for t in a if t[1].startswith('#')) == want:
            return None
    return '%s type ids do not keep their meaning: no one-to-one renaming of ids %r onto the reference term types %r reproduces the terms' % (k, ids, toks)


def compare_views(real, ref, pos_tol=POS_TOL, ordered=False):
    """None if the resolved views agree, else a short description of the first difference.
    Table-less type ids are compared up to a bijection per kind."""
    ra, rt = real; fa, ft = ref
    if len(ra) != len(fa):
        return 'atom count %d, reference %d' % (len(ra), len(fa))
    for i, (x, y) in enumerate(zip(ra, fa)):
        hx, px = _split(x); hy, py = _split(y)
        if hx[3] is not None and hy[3] is not None and coeff_tokens(hx[3]) == coeff_tokens(hy[3]):
            hx = hx[:3] + (hy[3],) + hx[4:]
        if hx != hy:
            return 'atom %d is %r, reference %r' % (i, hx, hy)
        if np.abs(px - py).max() > pos_tol:
            return 'atom %d at %r, reference %r' % (i, px.tolist(), py.tolist())
    for k in KINDS:
        a, b = rt[k], ft[k]
        if len(a) != len(b):
            return '%d %ss, reference %d: %r vs %r' % (len(a), k, len(b), [t[0] for t in a], [t[0] for t in b])
        if not ordered:
            d = _unordered_terms(k, a, b)
            if d:
                return d
            continue
        fwd, bwd = {}, {}
        for j, ((t1, c1, x1), (t2, c2, x2)) in enumerate(zip(a, b)):
            if t1 != t2:
                return '%s %d joins atoms %r, reference %r' % (k, j, t1, t2)
            if x1 != x2:
                return '%s %d %r has extra fields %r, reference %r' % (k, j, t1, x1, x2)
            if c1.startswith('#') != c2.startswith('#'):
                return '%s %d %r resolves to %r, reference %r' % (k, j, t1, c1, c2)
            if not c1.startswith('#'):
                if coeff_tokens(c1) != coeff_tokens(c2):
                    return '%s %d %r resolves to coefficient text %r, reference %r' % (k, j, t1, c1, c2)
            elif fwd.setdefault(c1, c2) != c2 or bwd.setdefault(c2, c1) != c1:
                return '%s %d %r has type id %s which does not keep its meaning (reference token %s; ids seen %r)' % (k, j, t1, c1, c2, fwd)
    return None
