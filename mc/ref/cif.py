"""Tokenizer/reader for the CIF subset mofun writes (no import of mofun, no PyCifRW): one data block,
`_tag value` items, `loop_` tables, quoted strings, `#` comments, semicolon text fields."""
import math
import re
import numpy as np


class CifError(Exception):
    pass


def tokens(text):
    out = []
    lines = text.split('\n'); i = 0
    while i < len(lines):
        ln = lines[i]
        if ln.startswith(';'):
            buf = [ln[1:]]; i += 1
            while i < len(lines) and not lines[i].startswith(';'):
                buf.append(lines[i]); i += 1
            out.append(('s', '\n'.join(buf))); i += 1
            continue
        j = 0; n = len(ln)
        while j < n:
            c = ln[j]
            if c in ' \t\r':
                j += 1; continue
            if c == '#':
                break
            if c in '\'"':
                k = j + 1
                while True:
                    k = ln.find(c, k)
                    if k < 0:
                        raise CifError('unterminated quote in line %d' % (i + 1))
                    if k + 1 >= n or ln[k + 1] in ' \t\r':
                        break
                    k += 1
                out.append(('s', ln[j + 1:k])); j = k + 1; continue
            k = j
            while k < n and ln[k] not in ' \t\r':
                k += 1
            out.append(('w', ln[j:k])); j = k
        i += 1
    return out


def read(text):
    """-> (block name, items {tag_lower: value}, loops [ (tags_lower, rows) ])"""
    toks = tokens(text); i = 0; name = None; items = {}; loops = []
    while i < len(toks):
        kind, t = toks[i]
        if kind == 'w' and t.lower().startswith('data_'):
            if name is not None:
                raise CifError('more than one data block')
            name = t[5:]; i += 1
        elif kind == 'w' and t.lower() == 'loop_':
            i += 1; tags = []
            while i < len(toks) and toks[i][0] == 'w' and toks[i][1].startswith('_'):
                tags.append(toks[i][1].lower()); i += 1
            vals = []
            while i < len(toks) and not (toks[i][0] == 'w' and (toks[i][1].startswith('_') or toks[i][1].lower() == 'loop_' or toks[i][1].lower().startswith('data_'))):
                vals.append(toks[i][1]); i += 1
            if not tags or len(vals) % len(tags):
                raise CifError('loop with %d tags has %d values' % (len(tags), len(vals)))
            loops.append((tags, [vals[r:r + len(tags)] for r in range(0, len(vals), len(tags))]))
        elif kind == 'w' and t.startswith('_'):
            if i + 1 >= len(toks):
                raise CifError('tag %s without value' % t)
            items[t.lower()] = toks[i + 1][1]; i += 2
        else:
            raise CifError('unexpected token %r' % (t,))
    return name, items, loops


def num(s):
    return float(re.sub(r'\(\d+\)', '', s))


def cellpar_to_cell(a, b, c, alpha, beta, gamma):
    """standard orientation: a along x, b in the xy plane"""
    al, be, ga = [math.radians(x) for x in (alpha, beta, gamma)]
    ca, cb, cg, sg = math.cos(al), math.cos(be), math.cos(ga), math.sin(ga)
    if abs(alpha - 90) < 1e-12: ca = 0.0
    if abs(beta - 90) < 1e-12: cb = 0.0
    if abs(gamma - 90) < 1e-12: cg, sg = 0.0, 1.0
    cx = cb; cy = (ca - cb * cg) / sg
    cz = math.sqrt(max(0.0, 1 - cx * cx - cy * cy))
    return np.array([[a, 0, 0], [b * cg, b * sg, 0], [c * cx, c * cy, c * cz]])


def loop_with(loops, tag):
    for tags, rows in loops:
        if tag in tags:
            return tags, rows
    return None, []


def column(loops, tag):
    tags, rows = loop_with(loops, tag)
    if tags is None:
        return None
    j = tags.index(tag)
    return [r[j] for r in rows]


def cell_params(items):
    keys = ['_cell_length_a', '_cell_length_b', '_cell_length_c', '_cell_angle_alpha', '_cell_angle_beta', '_cell_angle_gamma']
    if not all(k in items for k in keys):
        return None
    return [num(items[k]) for k in keys]


def params_of_cell(cell):
    cell = np.asarray(cell, float)
    l = [float(np.linalg.norm(v)) for v in cell]
    ang = lambda u, v: math.degrees(math.acos(max(-1.0, min(1.0, float(np.dot(u, v)) / (np.linalg.norm(u) * np.linalg.norm(v))))))
    return l + [ang(cell[1], cell[2]), ang(cell[0], cell[2]), ang(cell[0], cell[1])]
