"""Writer of Avogadro-flavoured CML from a boring molecule description (no import of mofun)."""


def write_cml(ids, elements, xyz, bonds, flavour=0):
    """ids: atom id strings; bonds: list of (i, j) index pairs, written in the given direction"""
    lines = []
    if flavour == 1:
        lines.append('<?xml version="1.0" encoding="UTF-8"?>')
        lines.append('<molecule formalCharge="0">')
    else:
        lines.append('<molecule>')
    lines.append(' <atomArray>')
    for k, (i, e, (x, y, z)) in enumerate(zip(ids, elements, xyz)):
        extra = ' formalCharge="1"' if flavour == 1 and k % 2 else ''
        lines.append('  <atom id="%s" elementType="%s"%s x3="%r" y3="%r" z3="%r"/>' % (i, e, extra, x, y, z))
    lines.append(' </atomArray>')
    if bonds:
        lines.append(' <bondArray>')
        for a, b in bonds:
            lines.append('  <bond atomRefs2="%s %s" order="1"/>' % (ids[a], ids[b]))
        lines.append(' </bondArray>')
    elif flavour == 2:
        lines.append(' <bondArray/>')
    lines.append('</molecule>')
    return '\n'.join(lines) + '\n'
