#!/bin/sh
# runs the pinned baseline suite of the repository (guard off); usage: repo_tests.sh [repo dir]
R=${1:-/repo}
cd "$R" && env -u MOFUN_VERIF PYTHONDONTWRITEBYTECODE=1 /venv/bin/python -m pytest -ra -q -p no:cacheprovider --timeout=900 --continue-on-collection-errors 2>&1 | tail -8; rm -f "$R/test-01.cif"
