#!/bin/sh
# tools/mut.sh <patch-or-sed-expr-file> <check id> [tier]  - run a check against a scratch copy of /repo with a mutation applied
# usage A: tools/mut.sh path/to/patch.diff C01 quick
# usage B: MUT_SED='s/a/b/' MUT_FILE=mofun/x.py tools/mut.sh - C01 quick
set -e
D=$(mktemp -d /tmp/mofun-mut.XXXXXX)
trap 'rm -rf "$D"' EXIT
rsync -a --exclude .git --exclude __pycache__ /repo/ "$D/"
if [ "$1" != "-" ]; then P=$(realpath "$1"); (cd "$D" && patch -p1 -s < "$P"); else sed -i "$MUT_SED" "$D/$MUT_FILE"; fi
if diff -rq /repo/mofun "$D/mofun" >/dev/null; then echo "MUTATION DID NOT CHANGE ANYTHING"; exit 3; fi
shift; ID=$1; TIER=${2:-quick}
if [ -n "$MUT_TESTS" ]; then /verif/tools/repo_tests.sh "$D" | tail -1; fi
cd /verif && MOFUN_VERIF_REPO="$D" VERIF_NO_EVIDENCE=1 ./check "$ID" "$TIER" | grep -E "^(C[0-9]+ |violations by|VIOLATION|HARNESS|KNOWN)" | head -${MUT_LINES:-4}
