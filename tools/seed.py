#!/usr/bin/env python3
"""Confirm and archive a property-breaking change delivered by a sub-agent, and run checks against it.

usage: tools/seed.py <worktree dir> <k> [--checks C01,C03] [--tier quick] [--name NAME]
  1. copies /repo's HEAD tree to a scratch dir, applies <worktree>/mutant_<k>.diff
  2. runs the repository's own tests on it (must still be 122 passed)
  3. runs <worktree>/demo_<k>.py with and without the change (must fail / pass)
  4. runs the named checks (default: the property's own) against the changed copy (MOFUN_VERIF_REPO)
  5. archives patch.diff, demo.py, meta.json under /verif/seeded/<name>/ (only if 2 and 3 hold)
The scratch copy is removed afterwards.  Nothing is ever applied to /repo itself.
"""
import sys, os, json, subprocess, tempfile, shutil, argparse, re

VERIF = os.path.dirname(os.path.dirname(os.path.abspath(__file__)))


def sh(cmd, cwd=None, env=None, timeout=3600):
    e = dict(os.environ); e.update(env or {})
    e.pop('MOFUN_VERIF', None)
    r = subprocess.run(cmd, shell=True, cwd=cwd, env=e, capture_output=True, text=True, timeout=timeout)
    return r.returncode, r.stdout + r.stderr


def main():
    ap = argparse.ArgumentParser()
    ap.add_argument('wt'); ap.add_argument('k')
    ap.add_argument('--checks', default=None); ap.add_argument('--tier', default='quick'); ap.add_argument('--name', default=None)
    ap.add_argument('--no-archive', action='store_true')
    a = ap.parse_args()
    wt = a.wt.rstrip('/'); k = a.k
    diff = os.path.join(wt, 'mutant_%s.diff' % k); demo = os.path.join(wt, 'demo_%s.py' % k); metaf = os.path.join(wt, 'meta_%s.json' % k)
    meta = json.load(open(metaf)) if os.path.exists(metaf) else {}
    pid = meta.get('property') or re.search(r'C\d\d', wt).group(0)
    name = a.name or '%s_%s' % (pid, k)
    checks = (a.checks or pid).split(',')
    d = tempfile.mkdtemp(prefix='mofun-seed-')
    try:
        clean = os.path.join(d, 'clean'); mut = os.path.join(d, 'mut')
        for t in (clean, mut):
            sh('git -C /repo archive HEAD | (mkdir -p %s && tar -x -C %s)' % (t, t))
        rc, out = sh('git apply --check %s && git apply %s' % (diff, diff), cwd=mut)
        if rc:
            rc, out = sh('patch -p1 < %s' % diff, cwd=mut)
        if rc:
            print('PATCH DOES NOT APPLY:', out[-500:]); return 2
        rc, out = sh('/venv/bin/python -m pytest -q -p no:cacheprovider tests 2>&1 | tail -3', cwd=mut)
        tests = out.strip().split('\n')[-1]
        tests_ok = '122 passed' in tests and 'failed' not in tests
        shutil.copy(demo, os.path.join(mut, 'demo.py')); shutil.copy(demo, os.path.join(clean, 'demo.py'))
        rc_m, out_m = sh('/venv/bin/python demo.py', cwd=mut, timeout=900)
        rc_c, out_c = sh('/venv/bin/python demo.py', cwd=clean, timeout=900)
        demo_ok = rc_m != 0 and rc_c == 0
        print('%s: tests: %s | demo with change rc=%d, without rc=%d -> %s' % (name, tests, rc_m, rc_c, 'CONFIRMED' if tests_ok and demo_ok else 'NOT CONFIRMED'))
        results = {}
        for c in checks:
            rc, out = sh('./check %s %s' % (c, a.tier), cwd=VERIF, env=dict(MOFUN_VERIF_REPO=mut, VERIF_NO_EVIDENCE='1'), timeout=7200)
            lines = [l for l in out.split('\n') if re.match(r'^(C\d+ |violations by|VIOLATION|HARNESS|KNOWN)', l)]
            caught = rc == 1 and any(l.startswith('VIOLATION') for l in lines)
            results[c] = dict(rc=rc, caught=caught, summary=[l[:400] for l in lines[:3]])
            print('  %s %s: rc=%d %s' % (c, a.tier, rc, 'CAUGHT' if caught else ('HARNESS ERROR' if rc == 2 else 'missed')))
            for l in lines[1:2]:
                print('     ', l[:300])
        if tests_ok and demo_ok and not a.no_archive:
            dst = os.path.join(VERIF, 'seeded', name); os.makedirs(dst, exist_ok=True)
            shutil.copy(diff, os.path.join(dst, 'patch.diff')); shutil.copy(demo, os.path.join(dst, 'demo.py'))
            old = {}
            if os.path.exists(os.path.join(dst, 'meta.json')):
                old = json.load(open(os.path.join(dst, 'meta.json')))
            runs = old.get('checks_run', {}); runs.update({'%s/%s' % (c, a.tier): r for c, r in results.items()})
            json.dump(dict(property=pid, summary=meta.get('summary'), needs=meta.get('needs'), files=meta.get('files'), origin='independent sub-agent given only the property text and a scratch worktree',
                           confirmed=dict(repo_tests=tests, demo_with_change_rc=rc_m, demo_without_change_rc=rc_c, demo_output_with_change=out_m[-600:]),
                           what_i_ran=['git archive HEAD of /repo into a scratch dir', 'git apply patch.diff', '/venv/bin/python -m pytest -q -p no:cacheprovider tests', '/venv/bin/python demo.py (with and without the change)',
                                       'MOFUN_VERIF_REPO=<scratch> ./check <ID> <tier>'], checks_run=runs), open(os.path.join(dst, 'meta.json'), 'w'), indent=1)
        return 0
    finally:
        shutil.rmtree(d, True)


if __name__ == '__main__':
    sys.exit(main())
