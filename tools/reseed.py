#!/usr/bin/env python3
"""Re-runs the current checks against every archived seeded change (/verif/seeded/*/patch.diff) and the
unfix patches (/verif/mutants/unfix-*.patch), on scratch copies of /repo's HEAD, and writes
/verif/seeded/RESULTS.md.  usage: tools/reseed.py [--tier quick] [name ...]"""
import sys, os, json, subprocess, tempfile, shutil, re, glob

VERIF = os.path.dirname(os.path.dirname(os.path.abspath(__file__)))
UNFIX = {  # reverse patch of a fix -> checks that must report its defect again
    'da78f89': ['C10'], 'd54b6cb': ['C11', 'C13', 'C09'], '99e5226': ['C11'], '79b8c1c': ['C12'], '53f3075': ['C12', 'C03'], '59c67bf': ['C14'], '563aee9': ['C16'],
    'fe5bde1': ['C15'], '32e5415': ['C15'], '1d88b0a': ['C15'], '78a0ade': ['C15'],
}


def sh(cmd, cwd=None, env=None, timeout=7200):
    e = dict(os.environ); e.update(env or {}); e.pop('MOFUN_VERIF', None)
    r = subprocess.run(cmd, shell=True, cwd=cwd, env=e, capture_output=True, text=True, timeout=timeout)
    return r.returncode, r.stdout + r.stderr


def run_checks(patch, checks, tier, reverse_of_fix=False):
    d = tempfile.mkdtemp(prefix='mofun-reseed-')
    try:
        sh('git -C /repo archive HEAD | tar -x -C %s' % d)
        rc, out = sh('git apply %s' % patch, cwd=d)
        if rc:
            rc, out = sh('patch -p1 < %s' % patch, cwd=d)
        if rc:
            return {c: dict(caught=None, note='patch does not apply: ' + out[-200:]) for c in checks}
        res = {}
        for c in checks:
            rc, out = sh('./check %s %s' % (c, tier), cwd=VERIF, env=dict(MOFUN_VERIF_REPO=d, VERIF_NO_EVIDENCE='1'))
            lines = [l for l in out.split('\n') if re.match(r'^(violations by|VIOLATION|HARNESS)', l)]
            res[c] = dict(rc=rc, caught=(rc == 1 and any(l.startswith('VIOLATION') for l in lines)), note=(lines[0][:300] if lines else ''))
        return res
    finally:
        shutil.rmtree(d, True)


def main():
    args = sys.argv[1:]; tier = 'quick'
    if '--tier' in args:
        tier = args[args.index('--tier') + 1]; args = [a for a in args if a not in ('--tier', tier)]
    rows = []
    for d in sorted(glob.glob(os.path.join(VERIF, 'seeded', '*', 'patch.diff'))):
        name = os.path.basename(os.path.dirname(d))
        if args and name not in args:
            continue
        mf = os.path.join(os.path.dirname(d), 'meta.json'); meta = json.load(open(mf))
        checks = sorted({k.split('/')[0] for k in meta.get('checks_run', {})} | {meta['property']})
        if os.environ.get('RESEED_MINIMAL'):
            # the property's own check if it caught the change last time, else the first check that did, plus the own one
            cb = meta.get('caught_by') or sorted({k.split('/')[0] for k, r in meta.get('checks_run', {}).items() if r.get('caught')})
            checks = [meta['property']] if meta['property'] in cb or not cb else [cb[0], meta['property']]
        res = run_checks(d, checks, tier)
        runs = meta.get('checks_run', {}); runs.update({'%s/%s' % (c, tier): r for c, r in res.items()}); meta['checks_run'] = runs
        meta['caught_by'] = sorted(c for c, r in res.items() if r['caught'])
        json.dump(meta, open(mf, 'w'), indent=1)
        rows.append((name, meta['property'], meta.get('summary') or '', ', '.join(meta['caught_by']) or 'MISSED', ', '.join(c for c, r in res.items() if not r['caught'])))
        print(rows[-1][0], rows[-1][3], flush=True)
    urows = []
    if not args:
        for p in sorted(glob.glob(os.path.join(VERIF, 'mutants', 'unfix-*.patch'))):
            h = os.path.basename(p).split('-')[1]
            checks = UNFIX.get(h)
            if checks is None:
                checks = [{'single_axis_hint_index_0': 'C01', 'triclinic_wrap': 'C05', 'empty_atoms_int_types': 'C09', 'getitem_keeps_labels': 'C09'}[k] for k in
                          ('single_axis_hint_index_0', 'triclinic_wrap', 'empty_atoms_int_types', 'getitem_keeps_labels') if k in p]
            res = run_checks(p, checks, tier)
            urows.append((os.path.basename(p), ', '.join(c for c, r in res.items() if r['caught']) or 'MISSED', ', '.join(c for c, r in res.items() if not r['caught'])))
            print(urows[-1][0], urows[-1][1], flush=True)
    # the per-change table is rebuilt from the (now updated) meta.json files; the reverse patches of the fixes get their own file
    if urows:
        with open(os.path.join(VERIF, 'seeded', 'RESULTS_unfix.md'), 'w') as f:
            f.write('# Reverse patches of the fix: commits vs. checks (%s tier, written by tools/reseed.py)\n\n| patch | caught by | not caught by |\n|---|---|---|\n' % tier)
            for r in urows:
                f.write('| %s | %s | %s |\n' % r)
    sys.path.insert(0, os.path.join(VERIF, 'tools'))
    import results_from_meta
    results_from_meta.main()
    return 0


if __name__ == '__main__':
    sys.exit(main())
