#!/usr/bin/env python3
"""Regenerates /verif/MANIFEST.json from the table below (run after adding a check)."""
import json, os, importlib.util

VERIF = os.path.dirname(os.path.dirname(os.path.abspath(__file__)))
BASELINE = "cd /repo && /venv/bin/python -m pytest -ra -q -p no:cacheprovider --timeout=900 --continue-on-collection-errors"

# id -> (engine, technique, level text, level note, design ref)
CHECKS = {
 'C10': ('E1 product', 'bounded-exhaustive enumeration of (structure, index subset, listing order, container) against a reference model',
         'Every deletion of every non-empty index subset (every listing order for |S|<=3, three containers) and every pop(i), i in -n..n-1, on chains of up to 6 (quick) / 7 (thorough) atoms in 28 variants (all term kinds or a subset of kinds, duplicate terms, ring angles, non-ascending tuples, extra columns, with and without tables), plus 60- and 400-atom structures with few terms and 8 scattered deletion sets, executed on the real Atoms and compared atom-by-atom and term-by-term with RefStructure.delete. Exhaustive within the size bound.',
         'Coverage statement over the stated structure family only; trusted: CPython, numpy, mc/ref/structure.py (self-tested).', '3/C10'),
 'C11': ('E1 product', 'bounded-exhaustive enumeration of (A, B, identity map, mode, term direction) against a reference model',
         'Every pair from 12 base structures (incl. empty, emptied-with-tables, tables-without-terms, term-kind subsets) x 14 fragments (term-kind subsets, same / different extra labels, long values) x every injective partial identity map x 5 modes (default merge, explicit offsets, twice, twice re-mapped, shared ids) x forward/reversed term listing, executed on the real Atoms.extend/extend_types and compared with RefStructure.extend (resolved view, table-less ids up to bijection); the argument must stay unmodified. Exhaustive within |A|<=4, |B|<=3 (quick) / 4 (thorough).',
         'Inside the compatibility domain (both or neither side define coefficient tables). Trusted: numpy, mc/ref/structure.py.', '3/C11'),
 'C12': ('E1 product', 'bounded-exhaustive enumeration of (cell, structure, replication triple) against a reference model',
         'Every (a,b,c) in {1..3}^3 (quick) / {1..4}^3 (thorough) x 5-6 cells (orthorhombic, triclinic both tilt signs, arbitrarily oriented) x 9 structures (impropers, extra columns, no tables, duplicate bond, exactly one bond, impropers only, angles+impropers only, dihedrals only): cell rows, one replica per lattice offset with identical resolved record, terms per image with identical type ids, tables, original untouched, 1x1x1 identity.',
         'Coverage over the stated menus. Trusted: numpy, mc/ref/structure.py.', '3/C12'),
 'C14': ('E1 product', 'exhaustive enumeration of the whole mass table x boundary offsets x tolerances against a nearest-within-tolerance oracle',
         'Finite domain: all 117 table entries x 9 (quick) / 17 (thorough) offsets x 3 tolerances, every midpoint and wide gap between mass-adjacent elements, masses below/above the table; call histories with changing tolerances in one process; each through the helper and through load_lmpdat alone / mixed with a valid / mixed with a non-atomic type (all-or-nothing fallback), plus a write/read cycle per element.',
         'The mass table is the parameter of the property. Masses within 1e-9 of a tolerance boundary are skipped.', '3/C14'),
 'C16': ('E1 product', 'bounded-exhaustive enumeration of CML documents against the generating description',
         'n<=4 atoms (thorough 5) x id schemes (sequential, reversed, every permutation, arbitrary strings, ids colliding with positions) x every bond set x 3 reference directions x 2 orders x 3 coordinate menus x 3 document flavours x 5 load routes (incl. explicit filetype on a path with another extension); elements, coordinates, bonds in document order compared exactly.',
         'Documents without XML namespace (the flavour of the repository examples). Trusted: xml.etree, mc/ref/cml.py.', '3/C16'),
 'C17': ('E1 product', 'exhaustive enumeration of all element pairs x cutoff sides x image placements, plus assemblies under shift/permutation, against a minimum-image reference',
         'All 4753 unordered pairs of the 97 tabulated symbols x {cutoff-1e-3, cutoff+1e-3, exactly the cutoff} x 7 placements (inside, low/high face, edge, corner) x 4 cells (none, cubic, triclinic +/-) x both atom orders; 4 mixed assemblies in 8 cells under shift-and-wrap and 4 permutations; heavy pairs on a fractional-separation grid in 4 narrow cells (widths 5.5-6.1 A), against ref_bonds over images -2..2.',
         'Radius / non-metal tables frozen at the pinned commit. Trusted: numpy, mc/ref/bonds.py.', '3/C17'),
 'C18': ('E1 product', 'exhaustive enumeration of the whole UFF type table (pairs, triples, quadruples) against vectorised reference equations',
         'Finite domain (221 types): all 221^2 ordered pairs x 4 bond orders x 5 rule sets; all 221^3 ordered triples plus explicit bond orders and single-bond rules on a 45^3 sub-table; torsions with explicit bond orders and rules on all central pairs; quadruples: quick all 221^2 central pairs x 20^2 outer class representatives (both directions), thorough all 221^4 ordered quadruples; 5 further multiplicities; all 221 pair coefficients. Values within 1e-9 relative of mc/ref/uff.py, finiteness, positivity, style and (b,n), torsion case table incl. None / unsupported, reversal.',
         'The UFF4MOF table is the parameter of the property; reference equations written from Rappe et al. 1992. Reversal identity is read as 1e-9 relative (DESIGN section 2).', '3/C18'),
 'C19': ('E1 product', 'exhaustive enumeration of labelled bond graphs x presentations and of graphs x type assignments x exclusion sets x renamings against set definitions and the reference equations',
         'Enumeration: all 263 (quick, n<=5) / 4224 (thorough, n<=6) labelled triangle-free graphs without isolated vertices x 7+ bond-list presentations. Typing: all 26 graphs n<=4 x all 6^n assignments of a 6-type alphabet x every exclusion subset x 3 term-list presentations x renamings, and 237 graphs n=5 x 16 covering assignments + all 3^5 assignments of a 3-type alphabet; partition = reversal-canonical sequence (+M), coefficient text = documented format of the reference values, None-torsions dropped, unsupported refused, retype/pair tables.',
         'Torsion multiplicity M is counted before exclusion (implementation-documented). Trusted: networkx-free reference in mc/checks/C19.py, mc/ref/uff.py.', '3/C19'),
 'C13': ('E1 product', 'bounded-exhaustive enumeration of structure shapes, each written, parsed by an independent read_data-style reader, re-read and re-written',
         '8 cells (orthorhombic, mixed / all-negative / yz-only / tiny 2e-4 tilts, tilt printing as 0, none) x per-kind (types, terms) shapes (8 fixed; thorough: full 6^4 product) x tables x 10 coefficient strings (keywords, multiple blanks, scientific notation, trailing comments) x charges x coordinates x labels x atom-type layouts x both atom styles; (a) mc/ref/lammps.py must read exactly the structure from the text and find it internally consistent, (b) load_lmpdat reproduces it, (c) save(load(.)) is a fixed point after one pass, (d) path / file-object / explicit-filetype routes agree.',
         'Coefficient strings with at most one trailing comment; LAMMPS-oriented cells. Trusted: mc/ref/lammps.py (written from the read_data documentation).', '3/C13'),
 'C15': ('E1 product', 'bounded-exhaustive enumeration of structure shapes, each written, parsed by two independent readers, re-read and re-written, plus a hand-written read-side menu',
         '5 cells x 4 coordinate menus (generic, grid, outside, boundary) x 8 term shapes incl. impropers (thorough: all 81 count tuples), force-field typed structures with two types per element x 0/1/2 extra columns per kind x charges x fractional/Cartesian: independent tokenizer and ase.io.read agree with the text; re-read reproduces elements, cell parameters, fractional coordinates mod 1, charges, terms, extra columns; T2==T1 for in-cell inputs, T3==T2 always; 21 hand-written files (uncertainties, Cartesian, H-M names accepted/rejected, wrap).',
         'Installed PyCifRW 5.0.1 / ase 3.29. Cartesian output only for standard-orientation cells. Trusted: mc/ref/cif.py, ase.io.read.', '3/C15'),
 'C01': ('E1+E2', 'bounded-exhaustive enumeration of (cell, pattern, pose, placement, decoy, tolerance, noise, hints) with stateless exploration of every random-draw answer; per-match rigid-image oracle',
         'Complete sub-products of 8 cells (orthorhombic, triclinic with both tilt signs and both orders of face areas, arbitrarily oriented, upper-triangular) x 14 patterns (1-7 atoms; symmetric, collinear along x / y, planar, chiral, mirror-plane-only) x 8/17 poses (cube rotations incl. antiparallel flips, near-degenerate, generic) x boundary-crossing placements x 8 decoy kinds (mirror image, near miss, partial, distractors, second copy, look-alike element, bent collinear triple) x 4 tolerances (0.001-0.2) x noise, multi-copy layouts, and every valid hint form (index 0 included); every answer of random.choice / np.random.random within deviation bound 1 (quick) / 2 (thorough). Each reported match: distinct in-range indices, pattern elements in order, positions = stored + lattice vector, returned proper rotation + best translation within atol, never OUT (mirror images), return arrays consistent.',
         'Coverage over the finite menus, not R^3. Draw trees are cut at the deviation bound / 60 (quick) or 300 (thorough) executions per scenario; the evidence counts bounded_out alternatives. Trusted: numpy, scipy Rotation.', '3/C01, 2'),
 'C02': ('E1+E2', 'same enumeration as C01 against a brute-force periodic reference matcher with IN/GRAY/OUT classes',
         'For every scenario and draw answer: IN <= reported <= IN u GRAY as sets of sorted unit-cell index tuples, no group twice; reference = all ordered image tuples over images -2..2 with Kabsch fits; planted copies are asserted IN (generator guard).',
         'Same menus as C01 without hints. GRAY groups (none occur on the generated menus) may be reported or not. Trusted: mc/ref/geom.py (self-tested).', '3/C02, 2'),
 'C03': ('E1+E2', 'metamorphic enumeration: every base structure x relation menu (shift-and-wrap, permutation, pattern motion, hint forms, draw answers, supercells), generated and real MOF files',
         '1344 (quick) / 8064 (thorough) base structures x 4/10 shifts, permutations (all n! for <=5 atoms), 3/8 pattern motions, another numbering of the atom types of pattern and structure, every valid hint form for patterns <=4/5 atoms, every draw answer within the bound, supercells ({1,2,3}^3 for <=6 atoms in thorough); plus uio66, uio66-triclinic, hkust-1 with linker / benzene / metal-centre / single-atom patterns. Canonical match sets may differ only in groups that are GRAY by their measured deviation; supercell counts exactly a*b*c per occurrence.',
         'Differences are excused only when c*eps > 0.8 atol for the measured Kabsch deviation eps (binding for all exact and low-noise copies). Trusted: numpy.', '3/C03, 2'),
 'C04': ('E1+E2', 'bounded-exhaustive enumeration of (cell, pattern, pose, placement, pattern pair, replace_all, fraction, copies) with every random.sample / tie-break answer; oracle driven by the recorded matches',
         '8 cells x 6 (thorough 8) patterns x poses x placements x 11 (search, replacement) pairs (empty, subset, one/all elements changed, grown, identical, shared atoms listed reversed, far-reaching, one atom displaced by 0.04 A, disjoint larger) x replace_all, plus 2-4 planted copies x 6 fractions with ordered sample answers, plus a tolerance sub-product (near-miss copy x atol 0.05/0.2/0.3) compared with a direct search; every draw answer within the deviation bound. With replace_all the atoms common to both patterns must come back in place. Replaced count within 1/2 of f*M and equal to the returned count, replaced = sampled matches, bystanders bit-identical, retained atoms in place, inserted atoms with the pattern\'s element/charge/group, per-element count identity, inputs untouched.',
         'Matches are recorded at the module seam mofun.mofun.find_pattern_in_structure. Planted copies are disjoint. Positions of inserted atoms are C05\'s business.', '3/C04'),
 'C05': ('E1+E2', 'bounded-exhaustive enumeration of inserting replacements in all cell shapes with a Kabsch rigid-image oracle modulo the lattice, plus the joint-motion relation',
         '8 cells (both tilt signs, arbitrarily oriented, upper-triangular) x 9 patterns (symmetric and collinear included) x poses x corner and single-face placements x 7 inserting pairs (incl. atoms 12 and 21 A away) x replace_all, 2-3 copies, partial replacement with every ordered sample answer; per replaced match the matched + inserted atoms must be one proper rigid image of search + replacement coordinates within c\'*eps + 1e-6 with inserted atoms taken at the lattice image nearest the prediction; fractional coordinates in [0,1]; 3/6 joint rigid motions of both patterns give the same structure mod lattice.',
         'Coverage over the finite menus. For one-atom / collinear search patterns the rotation about the axis is free, so only the rigid-image clause applies to them.', '3/C05'),
 'C07': ('E1+E2', 'exhaustive enumeration of overlap configurations x pattern pairs x flags with the full draw tree; oracle computed from the recorded matches',
         '6 structures whose occurrences share atoms (chains, star, homonuclear chains, control) x 3 search patterns x 10 replacements (incl. shared atoms listed in another order, same element displaced by 0.04 A) (shared atom retained by both / removed by one / by both; empty; larger) x 3 placements (interior, across a face, across a corner) x cells x replace_all x ignore flag x fractions {1/2, 1}, every sample subset and tie-break answer (unbounded). AtomsShouldNotBeDeletedTwice iff an atom is in two selected deletion sets, the replacement is non-empty and the flag is off; otherwise atom-count identity.',
         'Exhaustive over the stated small space (quick: 2 cells, 1-2 poses; thorough: 3 cells, 4 poses).', '3/C07'),
 'C08': ('E3 state graph', 'depth-2 operation histories {replace(P,P), replace(A,B), replace(B,A), search(A)} over generated structures with terms, every draw answer of both steps; real MOF files',
         '8 cells x 7 patterns x poses x placements x 4 history variants x 1-2 copies, structures carry symmetric-consistent bonds/angles/dihedrals inside and across matches; identity replacement leaves atom sequence and term tuple sets unchanged; A->B->A restores the (element, position mod lattice) multiset; after A->B a search for A finds nothing; uio66 / uio66-triclinic / hkust-1 identity and Zr->Hf->Zr.',
         'Default replace mode (replace_all=False). Real-file patterns are used bare (their own bonds would rightly be added).', '3/C08'),
 'C06': ('E3 state graph', 'explicit-state breadth-first search over histories of replacements with a reference structure; every state also checked through the written LAMMPS file',
         '12 initial typed 6-atom chains (orthorhombic / tilted cell x full tables and all term kinds / nothing / terms without tables / CIF workflow / tables without terms / extra columns) x 12 pattern pairs (incl. atoms listed in reverse, same element displaced by 0.03 A) and partial replacements selecting both matches in either sample order; (terms on retained / inserted / mixed atoms, forwards and reversed, element swap, parameterised self-replacement, single-atom, 4-atom with dihedral+improper, empty) x replace_all, depth 2 (quick) / 3 (thorough); plus docs Example 3 on uio66.cif (metal centre then linker). Resolved view = RefStructure.replace on every transition; independent LAMMPS reader agrees.',
         'Histories with overlapping matches are disabled (C07). Known finding K01 (pair table of the CIF workflow) is reported as KNOWN-FINDING; all other aspects of those states are still checked.', '3/C06'),
 'C09': ('E3 state graph', 'explicit-state breadth-first search over operation histories of real Atoms objects with a reference model; invariants I1-I5 in every state; start-from-elsewhere differential',
         '6 initial states x first operation from the full menu (every identity map / deletion subset on small states), breadth-first to depth 3 (quick) / 4 (thorough) over extend, extend-twice-with-offsets, delete, pop, replicate, copy, subset, replace, save+load; cap 8 atoms; states deduplicated by complete observable content; each new state re-derived by replaying its history from the initial state.',
         'Operation alphabet inside the C06 compatibility domain; inserted-atom positions taken from the result. Trusted: mc/ref/structure.py, mc/ref/lammps.py.', '3/C09'),
 'C20': ('E1+E2', 'bounded-exhaustive enumeration of option sets x formats x modes, CLI run in-process and compared byte-for-byte with an API reference driver under identical draw answers; keyword arguments recorded at the module seam',
         'Every subset of <= 2 (quick) / 3 (thorough) of 7 options + all on + --framework-element x 3 structures x 3 input formats (cif, lmpdat, cml+--extract-uc) x 2 outputs x 3 modes, and the documented example command lines on the real files; every draw answer explored on the CLI side and replayed on the API side.',
         'In-process through click.testing.CliRunner. Known finding K02 (--framework-element raises AttributeError).', '3/C20'),
}

# cases beyond the small bound (added after the adversarial fourth wave of seeded changes; DESIGN.md section 8.7): fixed, enumerated menus like everything else
SCALE = {
 'C01': 'Beyond the small bound: chiral sheet patterns of 31 / 65 / 72 atoms next to their mirror image (which differs in one atom; the oracle also bounds the rms deviation over 4-atom subsets), custom element names longer than two characters with decoys that agree in the first two, a 32783-atom structure in three atom orders.',
 'C02': 'Beyond the small bound: the same sheet / element-name cases against the reference matcher, and a 32783-atom structure (copies stored after / around 32768 filler atoms) against the planted occurrences.',
 'C03': 'Beyond the small bound: the 32783-atom crystal in three atom orders; an 80 A wide pattern handed over twisted about its own axis by 12 angles from 0.0009 to 180.055 degrees.',
 'C04': 'Beyond the small bound: both patterns written 9000 A from the origin (all pairs); a 32783-atom structure and a 31-atom chiral pattern (matches compared with the planted occurrences).',
 'C05': 'Beyond the small bound: patterns written 9000 A from the origin; 32783 atoms; 31-atom chiral sheet next to its mirror image (every replaced match must itself be a rigid image within sqrt(3) atol over every 4-atom subset).',
 'C06': 'Beyond the small bound (depth 1): the chain stored behind 1100 bonded filler atoms (term rows beyond 1024) and behind 900 atoms interleaved with 30 lone O atoms (one call removes 32 atoms spread over 900 indices).',
 'C07': 'Beyond the small bound: 216 / 343 non-overlapping single-atom matches; 32771 atoms with a C-N-C chain in the interior / through a face (occurrences known by construction).',
 'C08': 'Beyond the small bound: tolerances that are needed to match (atol 0.3 with copies displaced by 0.77 x 0.3/c, round trip judged with the reference matcher on the intermediate structure; real linker at atol 0.2 then searched again); 32783 atoms: identity and A->B->A.',
 'C09': 'Beyond the small bound (depth 2): chains at coordinates beyond 1000 A and below -100 A.',
 'C10': 'Beyond the small bound: fully bonded chains of 5000 and 9000 atoms (term rows 4095 / 8191, deletions of 256-300 atoms).',
 'C11': 'Beyond the small bound: 10- and 40-atom fragments with 7 / 14 atoms declared identical, 1300 existing bonds (re-defined bonds beyond row 1024), atom indices beyond 100000.',
 'C12': 'Beyond the small bound: factors (48,1,1) (49,1,1) (1,2,49) (1,98,1) (2,1,103) (107,1,1) (1,1,64) (7,7,1); a 17000-atom structure with terms on its last atoms replicated to 34000.',
 'C13': 'Beyond the small bound: 131-character coefficient strings, 12 atom types, coordinates of 4-5 digits, non-ASCII labels / paths, names with two dots.',
 'C14': 'Beyond the small bound: 9, 10, 11, 12, 100, 117, 256, 257, 300, 1000 atom types in one call / one file / one write-read cycle, in table and reversed order, with and without one non-atomic mass.',
 'C15': 'Beyond the small bound: extra-column values of 56 characters; 120 Cu / 1003 C atoms (labels Cu100, C1000) with terms on the late atoms.',
 'C16': 'Beyond the small bound: chain molecules of 200-1000 atoms (199-1001 bonds) in shuffled document order with 5 id schemes (ids of 16, 17 and 20-33 characters, long common prefixes).',
 'C17': 'Beyond the small bound: cells and coordinates of 1e7 ... 4e8 A (5 pairs x 4 distances x 7 placements x 5 cells); 1100-1200 atoms (shuffled lattice, clouds) against a vectorised minimum-image reference.',
 'C18': 'Call histories: every ordered pair evaluated in 4 sequences of 4-6 calls whose bond orders lie 0.01-0.06 apart (explicit and through rules); every answer must be the formula of its own call.',
 'C19': 'Beyond the small bound: 400 four-atom chains with more than 380 distinct dihedral types and undefined (sp) torsions first seen at positions 50, 300, 340, 399; a six-ring with 160 diatomics and a sparse exclusion; a 300-atom branched chain.',
 'C20': 'Beyond the small bound: a 298-atom structure with the count-dependent options; input names with two dots; --mic 5.0 next to --replicate (order matters) and 4.5 (2 x mic equals the cell length) alone.',
}

HIST = {
 'C01': 'Histories: 21 histories x 6 bases (structure / pattern searched, edited in place, replicated, copied, mirrored, re-used with other hints or structures before); the per-match oracle is applied to the current content.',
 'C02': 'Histories: the same 21 x 6 histories judged by the reference matcher on the current content.',
 'C03': 'Histories: the same histories judged by the fresh differential (the search on objects with a past equals the search on freshly constructed equal objects, same draw answers); inputs built from one coordinate array must not move each other.',
 'C04': 'Histories: 15 replacement histories x 4 bases (patterns re-used with other partners, translated in place, results replicated / resized / copied, nothing-to-replace calls) judged by the fresh differential, untouched inputs and the shared-data probe.',
 'C05': 'Histories: the same 15 x 4 replacement histories (inserted atoms in the replica of a result, after cell changes, with re-used patterns).',
 'C06': 'Every transition of the state graph is a step of a replacement history (depth 2-3); transitions also use the probes of C09 through the shared model.',
 'C07': 'Histories: the 15 replacement histories on chains / stars whose occurrences share an atom, with the overlap flag on and off: refusal or acceptance must be that of fresh objects with the same content.',
 'C08': 'Histories: the 15 replacement histories; A->B, replicate 2x1x1, B->A must give the replica of the original.',
 'C09': 'Every second subtree is explored warm (read-only calls and file writes before every operation); every transition checks untouched inputs (fragments, patterns, identity map), runs the shared-data probe between result and inputs, saves twice and checks atoms.elements against the resolved view.',
 'C10': 'Histories: every ordered pair of deletions of <= 2 atoms and pop sequences on one object (also through copy()), structures that were given the same term array by attribute assignment.',
 'C11': 'Histories: one fragment object and one identity-map dict used for two extensions (the second into the structure with its extra columns in reverse order), 54 combinations x 2 routes; map and fragment must come back unchanged.',
 'C12': 'Histories: read-only calls, a discarded replication or a replication of a replica before replicating (72 cases); shared-data probe between replica and original; replica.elements against the resolved view.',
 'C13': 'Histories: saved, then labels replaced / coefficients, positions, charges edited in place / cell doubled / replicated, saved again and judged by the independent reader; loose-tolerance load before a default one.',
 'C14': 'Histories: tolerance sequences (helper and loader); files whose free-text mass labels stand for other masses than in the previous file, 6 orders.',
 'C15': 'Histories: written, then replicated / cell stretched / positions scaled in place, written again and judged by the independent tokenizer; a copy extended by a new extra column must not change how the original is written.',
 'C16': 'Histories: a loaded molecule is edited in place by supported operations (an atom adopts another type through extend with shared ids, translate, delete, extend) before the same document is loaded again from file and path.',
 'C17': 'Histories: bonds detected, then replica / doubled cell / shift-and-wrap / the same atoms without a cell / a copy with a larger cell, detected again and judged by the reference rule (8 cells x 4 assemblies x 5 histories).',
 'C18': 'Histories: one rules list object edited in place between calls (append, retune, insert, pop, clear) for every third type x every second partner; values written into returned lists before the next call.',
 'C19': 'Histories: one exclusion-set object through all 6 call orders of the three assign functions (8 sets x 2 presentations; the set must come back unchanged); a bond list / array edited in place between enumerations; repeated typing.',
 'C20': 'The command line is invoked thousands of times in one process with changing inputs and options and compared with the API driver each time, so state kept between invocations shows as a difference.',
}

W6 = {
 'C01': 'Further menu entries: a triclinic cell whose tilt factors are all negative with 1-3 copies in every layout; multi-copy layouts stored in reversed / interleaved atom order; C-H / B-F pairs searched in CH4 / BF3 stars (matches that share their first atom) in three atom orders.',
 'C02': 'Further menu entries: the all-negative-tilt cell, reordered multi-copy layouts and star cases of C01, judged by the reference matcher.',
 'C04': 'Further menu entries: replacement patterns that carry a cell of their own (orthorhombic, triclinic); axis-aligned copies with noise at atol 0.05 and 0.2.',
 'C05': 'Further menu entries: replacement patterns that carry a cell of their own (inserted atoms must be wrapped into the structure\'s cell).',
 'C06': 'A 12th pattern pair lists the inserted atom before the kept ones, with bonds and an angle on the inserted atom.',
 'C07': 'Every structure carries a bond between the two bystander atoms stored after the matched atoms; it must survive on the same atoms.',
 'C12': 'The replica\'s extra labels and field-table widths are compared with the original\'s for every kind (also kinds without terms).',
 'C13': 'Label menu includes a scheme with one empty label.',
 'C16': 'Bond lists that repeat an atom pair (one bond per bond entry); coordinates of 3e-9 ... 1e-30.',
 'C17': 'In every narrow cell, pairs placed along each face normal: the first atom 0.3 ... 1.1 cutoffs below the face, the second 0.02 A beyond it, both atom orders.',
}

NOT_YET = {}


def main():
    props = [json.loads(l) for l in open(os.path.join(VERIF, 'properties.jsonl'))]
    checks = []; na = []
    for p in props:
        pid = p['id']
        if pid in CHECKS and os.path.exists(os.path.join(VERIF, 'mc', 'checks', pid + '.py')):
            eng, tech, text, note, ref = CHECKS[pid]
            text = text + ' ' + SCALE[pid] if pid in SCALE else text
            text = text + ' ' + HIST[pid] if pid in HIST else text
            text = text + ' ' + W6[pid] if pid in W6 else text
            checks.append(dict(property_id=pid, quick_cmd='./check %s quick' % pid, thorough_cmd='./check %s thorough' % pid,
                               evidence_file='/verif/evidence/%s.json' % pid, replay_cmd_template='./check %s --replay {path}' % pid,
                               engine=eng, technique=tech,
                               level_claimed=dict(category='model_checking', text=text, design_ref='DESIGN.md section ' + ref), level_note=note))
        else:
            na.append(dict(property_id=pid, reason=NOT_YET.get(pid, 'check not built yet in this session (planned in DESIGN.md section 3; the technique applies)')))
    man = dict(version=1, setup_cmd='./check --selftest',
               hooks=dict(guard='MOFUN_VERIF', enable='no guarded source change exists; checks import /repo/mofun from the working tree (MOFUN_VERIF_REPO overrides the path for mutation runs)',
                          baseline_off_cmd=BASELINE, source_commits=[], add_only=True),
               engines=[dict(name='E1 product', path='mc/engine/run.py', kind_free_text='bounded-exhaustive product enumerator over finite menus, sharded over 16 workers'),
                        dict(name='E2 choices', path='mc/engine/choices.py', kind_free_text='stateless choice-point explorer owning random.choice/random.sample/np.random.random'),
                        dict(name='E3 state graph', path='mc/engine/stategraph.py', kind_free_text='explicit-state breadth-first search over operation histories of real Atoms objects with a reference model')],
               checks=checks, not_applicable=na,
               notes='All checks explore the real implementation directly; see DESIGN.md. Exit 2 = harness error.')
    for e in man['engines']:
        e['serves_properties'] = [c['property_id'] for c in checks if e['name'].split()[0] in c['engine']]
    with open(os.path.join(VERIF, 'MANIFEST.json'), 'w') as f:
        json.dump(man, f, indent=1)
    print('MANIFEST: %d checks, %d not_applicable' % (len(checks), len(na)))


if __name__ == '__main__':
    main()
