#!/usr/bin/env python3
"""Writes /verif/seeded/RESULTS.md from the results recorded in /verif/seeded/*/meta.json (the last run of each check against
each archived change by tools/seed.py or tools/reseed.py) without re-running anything.  tools/reseed.py re-runs everything."""
import os, json, glob

VERIF = os.path.dirname(os.path.dirname(os.path.abspath(__file__)))
WAVE = {1: 1, 2: 1, 3: 2, 4: 2, 5: 3, 6: 3, 7: 4, 8: 4, 9: 5, 10: 5, 11: 6, 12: 6}


def main():
    rows = []
    for mf in glob.glob(os.path.join(VERIF, 'seeded', '*', 'meta.json')):
        name = os.path.basename(os.path.dirname(mf)); meta = json.load(open(mf))
        runs = meta.get('checks_run', {})
        caught = sorted({k.split('/')[0] for k, r in runs.items() if r.get('caught')}); missed = sorted({k.split('/')[0] for k, r in runs.items() if not r.get('caught')} - set(caught))
        pid, k = name.split('_'); rows.append((pid, int(k), name, meta['property'], (meta.get('summary') or '').replace('|', '/').replace('\n', ' '), caught, missed))
    rows.sort()
    with open(os.path.join(VERIF, 'seeded', 'RESULTS.md'), 'w') as f:
        f.write('# Seeded changes vs. checks (quick tier)\n\nLast recorded result of each check that was run against each archived change (tools/seed.py, tools/reseed.py).\n'
                'Wave 1-3: plain; wave 4: adversarial, beyond the small bound; wave 5: adversarial, state / aliasing / history; wave 6: plain.\n\n')
        own = sum(1 for r in rows if r[3] in r[5]); other = sum(1 for r in rows if r[3] not in r[5] and r[5]); none = sum(1 for r in rows if not r[5])
        f.write('%d changes: %d caught by the property\'s own check, %d only by another property\'s check, %d by none.\n\n' % (len(rows), own, other, none))
        f.write('| change | wave | property | what was changed | caught by | run, not caught by |\n|---|---|---|---|---|---|\n')
        for pid, k, name, prop, summ, caught, missed in rows:
            f.write('| %s | %d | %s | %s | %s | %s |\n' % (name, WAVE.get(k, 0), prop, summ[:300], ', '.join(caught) or 'NONE', ', '.join(missed)))
        old = os.path.join(VERIF, 'seeded', 'RESULTS_unfix.md')
    print('%d changes: own %d, other %d, none %d' % (len(rows), own, other, none))
    for r in rows:
        if not r[5]:
            print('  NONE:', r[2])


if __name__ == '__main__':
    main()
