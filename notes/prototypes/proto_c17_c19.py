"""Design-validation prototype (NOT the framework): spot checks for C17 and C19 oracles."""
import sys, itertools, time, io, contextlib
import numpy as np
sys.path.insert(0, '/repo')
from mofun import Atoms
from mofun.detect_bonds import detect_bonds, COVALENT_RADII, NON_METALS
import mofun.rough_uff as ru
# ---- C17 pairs
def cutoff(a, b):
    r = COVALENT_RADII[a] + COVALENT_RADII[b]
    return r + 0.45 if (a in NON_METALS or b in NON_METALS) else r
cells = [None, 12 * np.identity(3), np.array([[12., 0, 0], [4, 11, 0], [-3, 2.5, 12]])]
els = list(COVALENT_RADII)
t0 = time.time(); n = 0; bad = 0
dirs = [np.array(d, float) / np.linalg.norm(d) for d in [(1, 0, 0), (0, 1, 0), (1, 2, 2), (-1, 1, 3)]]
for cell in cells:
    for ia, a in enumerate(els):
        for b in els[ia:: 7]:   # slice for the prototype
            for sign in (-1, +1):
                for d in dirs[:2]:
                    dist = cutoff(a, b) + sign * 1e-3
                    for place in ([(0.5, 0.5, 0.5)] if cell is None else [(0.5, 0.5, 0.5), (0.01, 0.5, 0.5), (0.01, 0.99, 0.5), (0.01, 0.99, 0.01)]):
                        if cell is None:
                            p1 = np.array([5., 5, 5]); p2 = p1 + d * dist; pos = np.array([p1, p2])
                        else:
                            p1 = np.array(place) @ cell; p2 = p1 - d * dist   # goes through the low faces
                            pos = np.array([p1, p2]); f = pos @ np.linalg.inv(cell); f -= np.floor(f); pos = f @ cell
                        for order in (0, 1):
                            e = [a, b]; P = pos
                            if order: e = [b, a]; P = pos[::-1]
                            with contextlib.redirect_stderr(io.StringIO()):
                                s = Atoms(atom_types=[0, 1], atom_type_elements=e, atom_type_masses=[1., 1.], positions=P, cell=cell)
                            got = detect_bonds(s).tolist()
                            exp = [[0, 1]] if sign < 0 else []
                            n += 1
                            if got != exp:
                                bad += 1
                                if bad < 5: print("C17 MISMATCH", a, b, sign, place, got, exp)
print("C17 pairs", n, "bad", bad, "%.1fs" % (time.time() - t0))
# ---- C19 enumeration
def canon(t): t = tuple(int(x) for x in t); return min(t, t[::-1])
t0 = time.time(); ng = 0; bad = 0
for nn in range(2, 6):
    pairs = list(itertools.combinations(range(nn), 2))
    for mask in range(1, 1 << len(pairs)):
        edges = [pairs[i] for i in range(len(pairs)) if mask >> i & 1]
        adj = {i: set() for i in range(nn)}
        for a, b in edges: adj[a].add(b); adj[b].add(a)
        if any(not adj[i] for i in adj): continue
        if any(adj[a] & adj[b] for a, b in edges): continue
        ng += 1
        exp_ang = sorted(canon((a, j, b)) for j in adj for a, b in itertools.combinations(sorted(adj[j]), 2))
        exp_dih = sorted(canon((i, j, k, l)) for j, k in edges for i in adj[j] - {k} for l in adj[k] - {j} if i != l)
        for pres in range(3):
            bl = list(edges)
            if pres == 1: bl = [(b, a) for a, b in bl][::-1]
            if pres == 2: bl = bl + [bl[0][::-1]]
            ga = sorted(canon(t) for t in ru.calc_angles(np.array(bl)))
            gd = sorted(canon(t) for t in ru.calc_dihedrals(np.array(bl)))
            if ga != exp_ang or gd != exp_dih:
                bad += 1
                if bad < 5: print("C19 MISMATCH", edges, pres, ga, exp_ang, gd, exp_dih)
print("C19 graphs", ng, "bad", bad, "%.1fs" % (time.time() - t0))
