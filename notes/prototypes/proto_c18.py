"""Design-validation prototype (NOT the framework): vectorised UFF reference (bond, angle, torsion
case table) vs rough_uff on the whole type table (pairs and triples exhaustive, torsions on a slab)."""
import sys, os, time, math, itertools
import numpy as np
REPO = os.environ.get('MOFUN_VERIF_REPO', '/repo'); sys.path.insert(0, REPO)
import mofun.rough_uff as ru
from mofun.uff4mof import UFF4MOF, MAIN_GROUP_ELEMENTS
ru.print = lambda *a, **k: None
import io, contextlib
K = list(UFF4MOF); N = len(K)
T = np.array([UFF4MOF[k] for k in K], float)
r, th, Z, V, U, chi = T[:, 0], T[:, 1], T[:, 5], T[:, 6], T[:, 7], T[:, 8]
def ref_bo(a, b):
    s = {a, b}
    if s & {'H_', 'F_', 'Cl', 'Br', 'I_', 'C_3', 'N_3', 'O_3'}: return 1.0
    if len(s) == 1 and s <= {'C_2', 'N_2', 'O_2'}: return 2.0
    if len(s) == 1 and s <= {'C_R', 'N_R', 'O_R'}: return 1.5
    return 1.0
BO = np.array([[ref_bo(a, b) for b in K] for a in K])
def ref_bonds(bo):
    ri, rj = r[:, None], r[None, :]
    rbo = -0.1332 * (ri + rj) * np.log(bo)
    ren = ri * rj * (np.sqrt(chi)[:, None] - np.sqrt(chi)[None, :]) ** 2 / (chi[:, None] * ri + chi[None, :] * rj)
    rij = ri + rj + rbo - ren
    return 664.12 * Z[:, None] * Z[None, :] / rij ** 3 / 2, rij
kref, rref = ref_bonds(BO)
t0 = time.time(); bad = 0
with contextlib.redirect_stderr(io.StringIO()):
    for i, a in enumerate(K):
        for j, b in enumerate(K):
            k_, r_ = ru.bond_params(a, b)
            if not (math.isclose(k_, kref[i, j], rel_tol=1e-9) and math.isclose(r_, rref[i, j], rel_tol=1e-9) and k_ > 0 and r_ > 0): bad += 1
print("bonds", N * N, "bad", bad, "%.1fs" % (time.time() - t0))
# angles: all triples, j = centre
t0 = time.time(); bad = 0; nonpos = 0; styles = {}
c = np.cos(np.deg2rad(th)); s2 = np.sin(np.deg2rad(th)) ** 2
with contextlib.redirect_stderr(io.StringIO()):
    for j, b in enumerate(K[:: (1 if len(sys.argv) > 1 else 6)]):
        j = K.index(b)
        rij = rref[:, j][:, None]; rjk = rref[j, :][None, :]
        rik = np.sqrt(rij ** 2 + rjk ** 2 - 2 * rij * rjk * c[j])
        kijk = 664.12 * (Z[:, None] * Z[None, :] / rik ** 5) * (3 * rij * rjk * (1 - c[j] ** 2) - rik ** 2 * c[j])
        if th[j] in (180., 120., 90.):
            style = 'cosine/periodic'
            bn = {180.: (1, 1), 120.: (-1, 3)}.get(th[j]) or ((-1, 2) if (len(b) > 2 and b[2] == '3') else (1, 4))
        else:
            style = 'fourier'; C2 = 1 / (4 * s2[j]); C1 = -4 * C2 * c[j]; C0 = C2 * (2 * c[j] ** 2 + 1)
        for i, a in enumerate(K):
            for k, cc in enumerate(K):
                p = ru.angle_params(a, b, cc)
                ok = p[0] == style and math.isclose(p[1], kijk[i, k], rel_tol=1e-9) and p[1] > 0 and math.isfinite(p[1])
                if style == 'fourier': ok = ok and all(math.isclose(x, y, rel_tol=1e-9, abs_tol=1e-12) for x, y in zip(p[2:], (C0, C1, C2)))
                else: ok = ok and tuple(p[2:]) == bn
                if not ok: bad += 1; 
                if p[1] <= 0: nonpos += 1
        styles[style] = styles.get(style, 0) + 1
print("angle centres", styles, "bad", bad, "nonpositive K", nonpos, "%.1fs" % (time.time() - t0))
