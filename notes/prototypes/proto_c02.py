"""Design-validation prototype (NOT the framework): reference periodic matcher with IN/GRAY/OUT
classification, run against the real find_pattern_in_structure on a slice of the planned alphabet.
Purpose: measure gray-zone rate, false-alarm risk and cost before the engines are written."""
import sys, itertools, time, io, contextlib
import numpy as np
sys.path.insert(0, '/repo')
from scipy.spatial.transform import Rotation as R
from mofun import Atoms, find_pattern_in_structure

def kabsch(P, X):
    if len(P) == 1: return 0.0, 0.0
    Pc = P - P.mean(0); Xc = X - X.mean(0)
    H = Pc.T @ Xc; U, S, Vt = np.linalg.svd(H)
    d = np.sign(np.linalg.det(Vt.T @ U.T)) or 1.0
    Rm = Vt.T @ np.diag([1, 1, d]) @ U.T
    dev = np.linalg.norm((Rm @ Pc.T).T - Xc, axis=1)
    return dev.max(), np.sqrt((dev ** 2).mean())

def cconst(p, a1=None, a2=None, op=None):
    n = len(p)
    if n == 1: return 1.0
    dm = np.linalg.norm(p[:, None] - p[None], axis=2)
    if a1 is None and a2 is None: a1, a2 = np.unravel_index(np.argmax(dm), dm.shape)
    u = p[a2] - p[a1]; L = np.linalg.norm(u); u = u / L
    rel = p - p[a1]; D = np.linalg.norm(rel, axis=1).max()
    if n == 2: return 2 + 2 * D / L
    perp = rel - np.outer(rel @ u, u); pn = np.linalg.norm(perp, axis=1)
    rho = pn.max(); d = pn[op] if op is not None else rho
    if d < 1e-6: return 2 + 2 * D / L          # collinear: twist is irrelevant for the pattern itself
    return 2 + 2 * D / L + (2 * rho / d) * (1 + D / L)

def ref_match(spos, sel, cell, ppos, pel, atol, c):
    """returns dict group(sorted uc idx tuple) -> 'IN' | 'GRAY' | 'OUT'"""
    n = len(spos); k = len(ppos)
    rng = range(-2, 3)
    offs = np.array([i * cell[0] + j * cell[1] + kk * cell[2] for i in rng for j in rng for kk in rng])
    zero = np.where((np.abs(offs) < 1e-12).all(axis=1))[0][0]
    img_pos = (spos[None, :, :] + offs[:, None, :]).reshape(-1, 3)   # image-major
    img_idx = np.tile(np.arange(n), len(offs))
    pd = np.linalg.norm(ppos[:, None] - ppos[None], axis=2)
    loose = 4 * atol
    diam = pd.max() + 2 * loose
    groups = {}
    def rec(tup):
        i = len(tup)
        if i == k:
            X = img_pos[list(tup)]
            eps, rmsd = kabsch(ppos, X)
            disc = np.abs(np.linalg.norm(X[:, None] - X[None], axis=2) - pd).max()
            if c * eps <= 0.8 * atol: cls = 'IN'
            elif rmsd > 1.8 * atol + 1e-3 or disc > 3.7 * atol: cls = 'OUT'
            else: cls = 'GRAY'
            g = tuple(sorted(img_idx[list(tup)]))
            order = {'IN': 0, 'GRAY': 1, 'OUT': 2}
            if g not in groups or order[cls] < order[groups[g]]: groups[g] = cls
            return
        for cand in cands[i]:
            if cand in tup: continue
            ok = True
            for j in range(i):
                if abs(np.linalg.norm(img_pos[cand] - img_pos[tup[j]]) - pd[i, j]) > loose: ok = False; break
            if ok: rec(tup + (cand,))
    for a in range(n):
        if sel[a] != pel[0]: continue
        a_img = zero * n + a
        near = np.where(np.linalg.norm(img_pos - img_pos[a_img], axis=1) <= diam)[0]
        cands = [[a_img]] + [[x for x in near if sel[img_idx[x]] == pel[i]] for i in range(1, k)]
        rec((a_img,))
    return groups

PATS = {
 'single': (['Zr'], [(0,0,0)]),
 'pair': (['C','N'], [(0,0,0),(1.3,0,0)]),
 'homo': (['C','C'], [(0,0,0),(1.4,0,0)]),
 'oco': (['O','C','O'], [(-1.16,0,0),(0,0,0),(1.16,0,0)]),
 'hcn': (['H','C','N'], [(0,0,0),(1.06,0,0),(2.22,0,0)]),
 'cno': (['C','N','O'], [(0,0,0),(1.3,0,0),(1.6,1.2,0)]),
 'bf3': (['B','F','F','F'], [(0,0,0),(1.3,0,0),(-0.65,1.3*3**0.5/2,0),(-0.65,-1.3*3**0.5/2,0)]),
 'ch4': (['C','H','H','H','H'], [(0,0,0),(.63,.63,.63),(-.63,-.63,.63),(-.63,.63,-.63),(.63,-.63,-.63)]),
 'chiral': (['C','H','F','Cl','Br'], [(0,0,0),(.63,.63,.63),(-.8,-.8,.8),(-1.0,1.0,-1.0),(1.1,-1.1,-1.1)]),
 'chiral2': (['C','H','H','B'], [(0,0,0),(1,0,0),(0,2,0),(0,0,1)]),
 'frag7': (['C','C','O','O','H','N','F'], [(0,0,0),(1.4,0.2,0),(2.0,1.3,0.3),(2.1,-0.9,-0.4),(-0.6,0.9,0.2),(-0.7,-1.0,0.5),(0.1,0.2,-1.4)]),
}
GEN = R.from_euler('xyz', [0.3, 1.1, 2.0])
CELLS = [np.diag([9., 9, 9]), np.diag([8, 9.5, 11.]), np.array([[9, 0, 0], [2.5, 8.5, 0], [1.5, 2, 9.5.__float__()]]),
         np.array([[9., 0, 0], [-3, 8.5, 0], [2, -2.5, 9.5]])]
CELLS.append(CELLS[2] @ GEN.as_matrix().T)
CELLS.append(np.diag([8, 9.5, 11.]) @ GEN.as_matrix().T)
def cube_rotations():
    mats = []
    for perm in itertools.permutations(range(3)):
        for signs in itertools.product([1, -1], repeat=3):
            M = np.zeros((3, 3))
            for i, p in enumerate(perm): M[i, p] = signs[i]
            if np.linalg.det(M) > 0: mats.append(M)
    return mats
def wrap(pos, cell):
    f = pos @ np.linalg.inv(cell); f -= np.floor(f); return f @ cell

def scenario(cell, pname, rotM, frac, decoy, atol, noise_seed):
    pel, pp = PATS[pname]; pp = np.array(pp, float)
    k = len(pel)
    pos = list((rotM @ pp.T).T + np.array(frac) @ cell); el = list(pel)
    if noise_seed is not None and k > 1:
        c = cconst(pp); r = np.random.default_rng(noise_seed)
        nz = r.normal(size=(k, 3)); nz = nz / np.linalg.norm(nz, axis=1)[:, None] * (0.8 * atol / c) * 0.6
        pos = list(np.array(pos) + nz)
    far = (np.array(frac) + 0.5) % 1.0
    if decoy == 'mirror':
        pos += list((rotM @ (pp * [1, 1, -1]).T).T + far @ cell); el += list(pel)
    elif decoy == 'nearmiss' and k > 1:
        q = pp.copy(); v = q[-1] - q[0]; q[-1] = q[-1] + v / np.linalg.norm(v) * 6 * atol
        pos += list((rotM @ q.T).T + far @ cell); el += list(pel)
    elif decoy == 'partial' and k > 1:
        pos += list((rotM @ pp[:-1].T).T + far @ cell); el += list(pel[:-1])
    elif decoy == 'second':
        pos += list((rotM.T @ pp.T).T + far @ cell); el += list(pel)
    pos = wrap(np.array(pos), cell)
    return np.array(pos), el, pp, pel

if __name__ == '__main__':
    atol = 0.05
    rots = cube_rotations()[::3] + [R.random(random_state=s).as_matrix() for s in (11, 12)]
    fracs = list(itertools.product([0.03, 0.97], repeat=3)) + [(0.5, 0.5, 0.5), (0.0, 0.0, 0.0)]
    t0 = time.time(); n = 0; bad = 0; gray = 0; tfind = 0; tref = 0; cls_count = {}
    for ci, cell in enumerate(CELLS):
        for pname in PATS:
            for ri, rotM in enumerate(rots):
                for frac in fracs[:: (1 if ci in (2, 4) else 3)]:
                    for decoy in ['none', 'mirror', 'nearmiss', 'partial', 'second']:
                        for noise in (None, 7):
                            spos, sel, pp, pel = scenario(cell, pname, rotM, frac, decoy, atol, noise)
                            s = Atoms(elements=sel, positions=spos, cell=cell); p = Atoms(elements=pel, positions=pp)
                            t1 = time.time()
                            with contextlib.redirect_stderr(io.StringIO()):
                                m = find_pattern_in_structure(s, p, atol=atol)
                            t2 = time.time()
                            g = ref_match(spos, sel, cell, pp, pel, atol, cconst(pp))
                            t3 = time.time(); tfind += t2 - t1; tref += t3 - t2
                            rep = [tuple(sorted(x)) for x in m]
                            IN = {k_ for k_, v in g.items() if v == 'IN'}; GR = {k_ for k_, v in g.items() if v == 'GRAY'}
                            for v in g.values(): cls_count[v] = cls_count.get(v, 0) + 1
                            n += 1; gray += bool(GR)
                            ok = IN <= set(rep) <= (IN | GR) and len(rep) == len(set(rep))
                            planted = tuple(range(len(pel)))
                            if planted not in IN: print("PLANTED NOT IN", pname, decoy, noise, g.get(planted))
                            if not ok:
                                bad += 1
                                if bad < 10: print("MISMATCH", ci, pname, ri, frac, decoy, noise, rep, g)
    print("scenarios", n, "mismatch", bad, "with-gray", gray, "classes", cls_count, "t_find %.1f t_ref %.1f total %.1f" % (tfind, tref, time.time() - t0))
