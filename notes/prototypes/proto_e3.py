"""Design-validation prototype (NOT the framework): tiny explicit-state search over operation
histories (delete / extend-with-map / replicate / copy) with the reference model of proto_ref_atoms."""
import sys, itertools, time, collections, hashlib, pickle
import numpy as np
sys.path.insert(0, '/repo'); sys.path.insert(0, '.')
from proto_ref_atoms import *
if len(sys.argv) > 2 and sys.argv[2] == 'fix8':
    # emulate candidate repair #8 (num_*_types keep counting the coefficient table when no terms are left)
    def _mkprop(k):
        def f(self):
            t = getattr(self, k + '_types'); c = getattr(self, k + '_type_coeffs')
            return len(c) if len(t) == 0 else (len(c) or max(t) + 1)
        return property(f)
    for _k in KINDS: setattr(Atoms, 'num_%s_types' % _k, _mkprop(_k))
    Atoms.num_atom_types = property(lambda self: len(self.atom_type_elements))
CAP = 7
def ref_replicate(ref, dims, cell):
    atoms = list(ref.atoms); terms = {k: list(v) for k, v in ref.terms.items()}
    base_atoms = list(ref.atoms); base_terms = {k: list(v) for k, v in ref.terms.items()}
    uid = max([a['uid'] for a in atoms] + [0]) + 1000
    mults = [m for m in np.array(np.meshgrid(*[range(r) for r in dims])).T.reshape(-1, 3) if any(m)]
    for m in mults:
        off = m @ cell; umap = {}
        for a in base_atoms:
            e, l, ms, pc, q, g, p, x = a['rec']; uid += 1; umap[a['uid']] = uid
            atoms.append(dict(uid=uid, rec=(e, l, ms, pc, q, g, tuple(np.round(np.array(p) + off, 9)), x)))
        for k in KINDS: terms[k] = terms[k] + [(tuple(umap[u] for u in t[0]), t[1], t[2]) for t in base_terms[k]]
    return Ref(atoms, terms)
def canon(a, ref):
    return hashlib.sha1(pickle.dumps((view(a), [tuple(str(x) for x in t) for t in (a.atom_type_labels, a.pair_coeffs, a.bond_type_coeffs, a.angle_type_coeffs, a.dihedral_type_coeffs, a.improper_type_coeffs)],
                                      [tuple(int(x) for x in t) for t in (a.atom_types, a.bond_types, a.angle_types, a.dihedral_types, a.improper_types)], ref.view()))).hexdigest()
def ops(a):
    n = len(a)
    out = []
    for r in range(1, n + 1):
        for S in itertools.combinations(range(n), r): out.append(('del', S))
    for fi, F in enumerate(FRAGS):
        if n + len(F) > CAP: continue
        for r in range(0, min(n, len(F)) + 1):
            for src in itertools.combinations(range(len(F)), r):
                for dst in itertools.permutations(range(n), r): out.append(('ext', fi, tuple(zip(src, dst))))
    if 0 < n and 2 * n <= CAP: out += [('rep', (2, 1, 1)), ('rep', (1, 1, 2))]
    out.append(('rep', (1, 1, 1))); out.append(('copy',))
    return out
def apply(a, ref, op, step):
    a = a.copy(); ref = copy.deepcopy(ref)
    if op[0] == 'del': quiet(a.__delitem__, list(op[1])); ref.delete(op[1])
    elif op[0] == 'ext':
        F = FRAGS[op[1]]; quiet(a.extend, F.copy(), structure_index_map=dict(op[2])); ref.extend(Ref.of(F, uid0=10000 * (step + 1)), dict(op[2]))
    elif op[0] == 'rep': 
        if len(a) == 0: return a, ref
        cell = a.cell.copy(); a = quiet(a.replicate, op[1]); ref = ref_replicate(ref, op[1], cell)
    elif op[0] == 'copy': a = a.copy()
    return a, ref
tables = True
FRAGS = [mk(1, tables, 'xy', q0=-0.3, shift=7.0), mk(2, tables, 'xy', q0=-0.3, shift=7.0), mk(3, tables, 'uv', q0=-0.7, shift=11.0)]
depth = int(sys.argv[1]) if len(sys.argv) > 1 else 2
init = mk(3, tables, 'ab')
seen = {canon(init, Ref.of(init))}; frontier = collections.deque([(init, Ref.of(init), [])])
states = 1; trans = 0; bad = 0; t0 = time.time(); sigs = collections.Counter()
while frontier:
    a, ref, hist = frontier.popleft()
    if len(hist) >= depth: continue
    for op in ops(a):
        trans += 1
        try:
            a2, r2 = apply(a, ref, op, len(hist)); ok = same(view(a2), r2.view()); why = 'view'
        except Exception as e:
            ok = False; why = type(e).__name__ + ':' + str(e)[:60]; a2 = None
        if not ok:
            bad += 1; sigs[why] += 1
            if sigs[why] <= 2: print("VIOL", hist + [op], why)
            continue
        h = canon(a2, r2)
        if h not in seen: seen.add(h); states += 1; frontier.append((a2, r2, hist + [op]))
print("depth", depth, "states", states, "transitions", trans, "violations", bad, dict(sigs), "%.1fs" % (time.time() - t0))
