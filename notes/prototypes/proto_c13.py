"""Design-validation prototype (NOT the framework): independent LAMMPS-data reader vs save_lmpdat /
load_lmpdat over a product of structure shapes (C13)."""
import sys, os, io, itertools, time, contextlib, re
import numpy as np
REPO = os.environ.get('MOFUN_VERIF_REPO', '/repo'); sys.path.insert(0, REPO)
from mofun import Atoms
SECTIONS = ['Masses', 'Pair Coeffs', 'Bond Coeffs', 'Angle Coeffs', 'Dihedral Coeffs', 'Improper Coeffs', 'Atoms', 'Bonds', 'Angles', 'Dihedrals', 'Impropers']
def ref_read(text, atom_style):
    lines = text.split('\n'); hdr = {}; secs = {}; cur = None; box = {}
    for ln in lines[1:]:                     # LAMMPS always skips line 1
        body = ln.split('#', 1)[0].strip(); comment = ln.split('#', 1)[1].strip() if '#' in ln else None
        if not body: continue
        if body in SECTIONS: cur = body; secs[cur] = []; continue
        if cur is None:
            m = re.match(r'^(\d+)\s+(atoms|bonds|angles|dihedrals|impropers|atom types|bond types|angle types|dihedral types|improper types)$', body)
            if m: hdr[m.group(2)] = int(m.group(1)); continue
            t = body.split()
            if body.endswith('xlo xhi'): box['x'] = (float(t[0]), float(t[1])); continue
            if body.endswith('ylo yhi'): box['y'] = (float(t[0]), float(t[1])); continue
            if body.endswith('zlo zhi'): box['z'] = (float(t[0]), float(t[1])); continue
            if body.endswith('xy xz yz'): box['tilt'] = tuple(float(x) for x in t[:3]); continue
            raise ValueError('unknown header line: ' + ln)
        secs[cur].append((body.split(), comment))
    return hdr, box, secs
def consistent(hdr, secs, errs):
    for kind, sec, tsec, ncol in [('bond', 'Bonds', 'Bond Coeffs', 2), ('angle', 'Angles', 'Angle Coeffs', 3), ('dihedral', 'Dihedrals', 'Dihedral Coeffs', 4), ('improper', 'Impropers', 'Improper Coeffs', 4)]:
        n = hdr.get(kind + 's', 0); nt = hdr.get(kind + ' types', 0)
        if len(secs.get(sec, [])) != n: errs.append('%s count %d != section %d' % (kind, n, len(secs.get(sec, []))))
        if tsec in secs and len(secs[tsec]) != nt: errs.append('%s: %d declared types but %d coeff lines' % (kind, nt, len(secs[tsec])))
        for tok, _ in secs.get(sec, []):
            if not (1 <= int(tok[1]) <= nt): errs.append('%s type id %s out of 1..%d' % (kind, tok[1], nt))
            if any(not (1 <= int(x) <= hdr.get('atoms', 0)) for x in tok[2:2 + ncol]): errs.append('%s atom id out of range' % kind)
    if len(secs.get('Atoms', [])) != hdr.get('atoms', 0): errs.append('atom count')
    if len(secs.get('Masses', [])) != hdr.get('atom types', 0): errs.append('masses vs atom types %d %d' % (len(secs.get('Masses', [])), hdr.get('atom types', 0)))
    if 'Pair Coeffs' in secs and len(secs['Pair Coeffs']) != hdr.get('atom types', 0): errs.append('pair coeffs vs atom types')
def quiet(f, *a, **k):
    with contextlib.redirect_stderr(io.StringIO()), contextlib.redirect_stdout(io.StringIO()): return f(*a, **k)
COEFFS = ['100.5 1.3', 'harmonic  12.0   3', 'fourier 1e-3 -0.5 2', '7 # C_R N_R', 'cosine/periodic 72.5 -1 1   # C_R O_1 H_', '-3.25']
CELLS = [np.diag([10., 11, 12]), np.array([[10., 0, 0], [3, 11, 0], [-2, 1.5, 12]]), np.array([[10., 0, 0], [1e-8, 11, 0], [0, 0, 12]]), None]
def build(cell, ntypes, nterms, tables, coeff_i, charges, neg, labels):
    n = 4; kw = dict(atom_types=[0, 1, 1, 0], atom_type_elements=['C', 'N'], atom_type_masses=[12.0107, 14.0067], atom_type_labels=labels,
                     positions=np.array([(1, 1, 1), (2.5, 1, 1), (2.5, 2.25, 1.125), (13.5, -1, 0.5)]) * (-1 if neg else 1), charges=charges, groups=[0, 1, 1, 2], cell=cell)
    if tables: kw['pair_coeffs'] = [COEFFS[coeff_i], COEFFS[(coeff_i + 1) % len(COEFFS)]]
    tup = {'bond': [(0, 1), (1, 2), (3, 2)], 'angle': [(0, 1, 2), (1, 2, 3), (3, 0, 1)], 'dihedral': [(0, 1, 2, 3), (3, 2, 1, 0), (1, 0, 3, 2)], 'improper': [(1, 0, 2, 3), (2, 1, 3, 0), (0, 3, 1, 2)]}
    for k, attr in [('bond', 'bonds'), ('angle', 'angles'), ('dihedral', 'dihedrals'), ('improper', 'impropers')]:
        t = tup[k][:nterms[k]]; kw[attr] = t; kw[k + '_types'] = [i % max(ntypes[k], 1) for i in range(len(t))]
        if tables and ntypes[k]: kw[k + '_type_coeffs'] = [COEFFS[(coeff_i + i) % len(COEFFS)] for i in range(ntypes[k])]
    return quiet(Atoms, **kw)
def toks(s): return s.split('#')[0].split(), (s.split('#', 1)[1].strip() if '#' in s else None)
if __name__ == '__main__':
    t0 = time.time(); n = 0; bad = 0; why = {}
    shapes = [dict(zip(['bond', 'angle', 'dihedral', 'improper'], v)) for v in [(0, 0, 0, 0), (1, 1, 1, 1), (2, 1, 0, 3), (3, 3, 3, 3)]]
    for cell, nt, nm, tables, ci, ch, neg, lab, style in itertools.product(CELLS, shapes, shapes, (True, False), range(len(COEFFS)), ([0, 0, 0, 0], [-0.8234567, 12.5, 0, 1e-7]), (False, True), (['C', 'N'], ['C_R', 'N 2']), ('full', 'atomic')):
        if any(nm[k] and not nt[k] for k in nt): continue      # terms need at least one type
        a = build(cell, nt, nm, tables, ci, ch, neg, lab); n += 1; errs = []
        try:
            s1 = io.StringIO(); quiet(a.save_lmpdat, s1, atom_format=style); T1 = s1.getvalue()
            hdr, box, secs = ref_read(T1, style); consistent(hdr, secs, errs)
            # (a) file states the structure
            if cell is not None:
                lo_hi = [box[k][1] - box[k][0] for k in 'xyz']; tilt = box.get('tilt', (0, 0, 0))
                refcell = np.array([[lo_hi[0], 0, 0], [tilt[0], lo_hi[1], 0], [tilt[1], tilt[2], lo_hi[2]]])
                if np.abs(refcell - cell).max() > 1e-6: errs.append('cell')
            for i, (tok, c) in enumerate(secs['Atoms']):
                cols = [float(x) for x in tok]
                exp = [i + 1, a.groups[i] + 1, a.atom_types[i] + 1, a.charges[i], *a.positions[i]] if style == 'full' else [i + 1, a.atom_types[i] + 1, *a.positions[i]]
                if len(cols) != len(exp) or np.abs(np.array(cols) - exp).max() > 5.1e-7: errs.append('atom line')
            for k, sec, csec in [('pair', None, 'Pair Coeffs'), ('bond', 'Bonds', 'Bond Coeffs'), ('angle', 'Angles', 'Angle Coeffs'), ('dihedral', 'Dihedrals', 'Dihedral Coeffs'), ('improper', 'Impropers', 'Improper Coeffs')]:
                table = a.pair_coeffs if k == 'pair' else getattr(a, k + '_type_coeffs')
                if len(table) and [(t[1:], c) for t, c in secs.get(csec, [])] != [toks(str(x)) for x in table]: errs.append(csec)
                if sec:
                    arr = getattr(a, {'bond': 'bonds', 'angle': 'angles', 'dihedral': 'dihedrals', 'improper': 'impropers'}[k]); ty = getattr(a, k + '_types')
                    got = [[int(x) for x in t] for t, _ in secs.get(sec, [])]
                    if got != [[j + 1, int(ty[j]) + 1, *[int(x) + 1 for x in arr[j]]] for j in range(len(arr))]: errs.append(sec)
            # (b) mofun's reader reproduces; (c) second write is a fixed point
            b = quiet(Atoms.load_lmpdat, io.StringIO(T1), atom_format=style)
            s2 = io.StringIO(); quiet(b.save_lmpdat, s2, atom_format=style); T2 = s2.getvalue()
            c = quiet(Atoms.load_lmpdat, io.StringIO(T2), atom_format=style); s3 = io.StringIO(); quiet(c.save_lmpdat, s3, atom_format=style)
            if s3.getvalue() != T2: errs.append('not a fixed point')
            if list(b.atom_types) != list(a.atom_types) or np.abs(b.positions - a.positions).max() > 5.1e-7: errs.append('reload atoms')
            if list(b.atom_type_labels) != list(lab): errs.append('labels')
            if style == 'full' and (list(b.groups) != list(a.groups) or np.abs(b.charges - a.charges).max() > 5.1e-7): errs.append('reload q/groups')
            for k, attr in [('bond', 'bonds'), ('angle', 'angles'), ('dihedral', 'dihedrals'), ('improper', 'impropers')]:
                if np.array(getattr(b, attr)).tolist() != np.array(getattr(a, attr)).tolist() or list(getattr(b, k + '_types')) != list(getattr(a, k + '_types')): errs.append('reload ' + attr)
                if [toks(str(x)) for x in getattr(b, k + '_type_coeffs')] != [toks(str(x)) for x in getattr(a, k + '_type_coeffs')]: errs.append('reload coeffs ' + k)
        except Exception as e:
            errs.append('EXC ' + type(e).__name__ + ' ' + str(e)[:80])
        if errs:
            bad += 1
            for e in set(errs): why[e] = why.get(e, 0) + 1
            if bad <= 3: print("VIOL", dict(cell=None if cell is None else cell.tolist(), nt=nt, nm=nm, tables=tables, ci=ci, style=style), errs[:4])
    print("shapes", n, "bad", bad, why, "%.1fs" % (time.time() - t0))
