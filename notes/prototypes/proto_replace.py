"""Design-validation prototype (NOT the framework): C04/C05-style oracle for replace on all cells,
run against a tree chosen by MOFUN_VERIF_REPO (default /repo)."""
import sys, os, itertools, time, io, contextlib
import numpy as np
REPO = os.environ.get('MOFUN_VERIF_REPO', '/repo'); sys.path.insert(0, REPO)
import mofun; assert mofun.__file__.startswith(REPO)
import mofun.mofun as MM
from mofun import Atoms, replace_pattern_in_structure
from scipy.spatial.transform import Rotation as R
from proto_c02 import CELLS, PATS, cube_rotations, wrap, kabsch, cconst
rec = {}
orig_find = MM.find_pattern_in_structure
def recording_find(*a, **k):
    r = orig_find(*a, **k); rec['last'] = r; return r
MM.find_pattern_in_structure = recording_find
# (search name, replacement elements, replacement coords relative to search coords)
def pairs(pname):
    pel, pp = PATS[pname]; pp = np.array(pp, float); k = len(pel)
    out = [('empty', [], np.zeros((0, 3)))]
    out.append(('swap_last', pel[:-1] + ['Xe'], pp.copy()))
    out.append(('swap_all', ['Xe'] * k, pp.copy()))
    out.append(('grow', pel + ['F', 'He'], np.vstack([pp, pp[-1] + [0.4, 0.9, 1.1], pp[0] + [-1.2, 0.3, -0.8]])))
    out.append(('self', list(pel), pp.copy()))
    if k > 1: out.append(('shrink', pel[:-1], pp[:-1].copy()))
    return out
def lattice_delta(d, cell):
    f = d @ np.linalg.inv(cell); return np.abs(f - np.round(f)).max()
atol = 0.05; n = 0; bad = 0; t0 = time.time(); why = {}
rots = cube_rotations()[::5] + [R.random(random_state=s).as_matrix() for s in (11, 12)]
for ci, cell in enumerate(CELLS):
    inv = np.linalg.inv(cell)
    for pname in ['single', 'pair', 'homo', 'oco', 'cno', 'bf3', 'ch4', 'chiral2']:
        pel, pp = PATS[pname]; pp = np.array(pp, float); k = len(pel)
        for rotM in rots:
            for frac in [(0.03, 0.97, 0.5), (0.97, 0.97, 0.97), (0.5, 0.5, 0.5)]:
                spos = wrap((rotM @ pp.T).T + np.array(frac) @ cell, cell)
                # bystander atoms
                by = wrap((np.array(frac) + [[0.5, 0.5, 0.0], [0.0, 0.5, 0.5]]) @ cell, cell)
                with contextlib.redirect_stderr(io.StringIO()):
                    s = Atoms(elements=list(pel) + ['Kr', 'Ar'], positions=np.vstack([spos, by]), cell=cell, charges=np.arange(k + 2) * 0.1 + 0.1, groups=np.arange(k + 2))
                    sp = Atoms(elements=pel, positions=pp + [3.3, -1.2, 0.7])   # pattern not at origin
                for rname, rel, rp in pairs(pname):
                    for replace_all in (False, True):
                        with contextlib.redirect_stderr(io.StringIO()):
                            rpat = Atoms(elements=rel, positions=rp + [3.3, -1.2, 0.7]) if len(rel) else Atoms()
                            try:
                                out, nm = replace_pattern_in_structure(s, sp, rpat, atol=atol, replace_all=replace_all, return_num_matches=True)
                            except Exception as e:
                                bad += 1; why['exc ' + type(e).__name__] = why.get('exc ' + type(e).__name__, 0) + 1; continue
                        n += 1; errs = []
                        mi, mpos, quats = rec['last']
                        if nm != 1 or len(mi) != 1: errs.append('count')
                        else:
                            shared = [j for j in range(len(rel)) if j < k and rel[j] == pel[j] and np.allclose(rp[j], pp[j])] if not replace_all else []
                            n_ins = len(rel) - len(shared)
                            if len(out) != k + 2 - (k - len(shared)) + n_ins: errs.append('natoms')
                            ins = out.positions[len(out) - n_ins:] if n_ins else np.zeros((0, 3))
                            fr = ins @ inv
                            if n_ins and (fr.min() < -1e-9 or fr.max() > 1 + 1e-9): errs.append('outside')
                            if n_ins:
                                ins_idx = [j for j in range(len(rel)) if j not in shared]
                                P = np.vstack([pp, rp[ins_idx]]); X0 = np.vstack([mpos[0], ins])
                                # bring inserted atoms to the lattice image nearest to the Kabsch prediction from matched atoms only
                                if k >= 3 and pname not in ('oco',):
                                    Pc = pp - pp.mean(0); Xc = mpos[0] - mpos[0].mean(0); U, S, Vt = np.linalg.svd(Pc.T @ Xc); d = np.sign(np.linalg.det(Vt.T @ U.T)) or 1
                                    Rm = Vt.T @ np.diag([1, 1, d]) @ U.T; eps_m = np.abs((Rm @ Pc.T).T - Xc).max(); tol = 1e-6 + 10 * eps_m; pred = (Rm @ (rp[ins_idx] - pp.mean(0)).T).T + mpos[0].mean(0)
                                    if max(lattice_delta(a - b, cell) for a, b in zip(ins, pred)) > tol: errs.append('position')
                                    else:
                                        ins_u = ins + np.round((pred - ins) @ inv) @ cell
                                        if np.abs(ins_u - pred).max() > tol: errs.append('position2')
                            # bystanders untouched
                            outset = {(str(e), tuple(p)) for e, p in zip(out.elements, out.positions)}
                            for e, p in zip(['Kr', 'Ar'], by):
                                if (e, tuple(p)) not in outset: errs.append('bystander')
                        if errs:
                            bad += 1
                            for e in errs: why[e] = why.get(e, 0) + 1
                            if bad < 6: print("VIOL", ci, pname, rname, replace_all, frac, errs)
print("executions", n, "bad", bad, why, "%.1fs" % (time.time() - t0))
