"""Design-validation prototype (NOT the framework): resolved-view oracle for replace with typed
patterns (C06), one and two chained replacements, on the tree given by MOFUN_VERIF_REPO."""
import sys, os, itertools, time, io, contextlib, copy
import numpy as np
REPO = os.environ.get('MOFUN_VERIF_REPO', '/repo'); sys.path.insert(0, REPO)
import proto_ref_atoms as P
from proto_ref_atoms import Ref, view, same, quiet, KINDS, ATTR
from mofun import Atoms, replace_pattern_in_structure, find_pattern_in_structure
import mofun; assert mofun.__file__.startswith(REPO)

def typed(els, xs, labels, tag, tables, terms, q0=0.1, cell=None):
    uniq = list(dict.fromkeys(zip(els, labels)))
    kw = dict(atom_types=[uniq.index(t) for t in zip(els, labels)], atom_type_elements=[u[0] for u in uniq], atom_type_labels=[u[1] for u in uniq],
              atom_type_masses=[{'C': 12.0107, 'N': 14.0067, 'O': 15.9994, 'F': 18.9984032, 'S': 32.065}[u[0]] for u in uniq],
              positions=[(x, 1.0 + 0.05 * i, 1.0) for i, x in enumerate(xs)], charges=[q0 * (i + 1) for i in range(len(els))], groups=[i % 3 for i in range(len(els))], cell=cell)
    if tables: kw['pair_coeffs'] = ['pc_%s_%s' % (tag, u[1]) for u in uniq]
    for k in KINDS:
        tl = terms.get(k, [])
        kw[ATTR[k]] = [t for t, _ in tl]; kw[k + '_types'] = [ty for _, ty in tl]
        if tables and tl: kw[k + '_type_coeffs'] = ['%s_%s_%d' % (k[0], tag, i) for i in range(max(ty for _, ty in tl) + 1)]
    return quiet(Atoms, **kw)

def ref_replace(sref, matches, sp_view, rp, rp_tag_uid0, shared, replace_all, real_out_positions_tail):
    """semantic model of replace: per match extend-with-map, then delete un-retained matched atoms"""
    dead = []; tail = list(real_out_positions_tail)
    for mi, match in enumerate(matches):
        rref = Ref.of(rp, uid0=rp_tag_uid0 + 1000 * mi, origin='P')
        m = {} if replace_all else {j: match[sj] for j, sj in shared.items()}
        sref.extend(rref, m)
        dead += [i for i in match if i not in m.values()]
    sref.delete(sorted(set(dead)))
    return sref

def run(tables_s, tables_p, cell):
    # structure: C N O C N O chain (+ far S atom), spacings 1.3, 1.5 | 2.9 gap | 1.3, 1.5
    xs = [1.0, 2.3, 3.8, 6.7, 8.0, 9.5, 13.0]
    els = list('CNOCNO') + ['S']; labels = ['C_a', 'N_a', 'O_a', 'C_b', 'N_a', 'O_a', 'S_a']
    terms = {'bond': [((0, 1), 0), ((1, 2), 1), ((2, 3), 0), ((3, 4), 0), ((4, 5), 1), ((5, 6), 1), ((1, 0), 1)][:6],
             'angle': [((0, 1, 2), 0), ((1, 2, 3), 1), ((3, 4, 5), 0), ((4, 5, 6), 1)],
             'dihedral': [((0, 1, 2, 3), 0), ((3, 4, 5, 6), 0)], 'improper': [((1, 0, 2, 3), 0)]}
    s = typed(els, xs, labels, 'S', tables_s, terms, cell=cell)
    sp = typed(list('CN'), [0.0, 1.3], ['C', 'N'], 'F', False, {})
    sp.positions[:, 1] = [1.0, 1.05]
    out = []
    # replacement variants: (elements, xs, labels, terms)
    variants = {
      'same+F': (list('CNF'), [0.0, 1.3, 0.6], ['C_p', 'N_p', 'F_p'], {'bond': [((0, 1), 0), ((1, 2), 1)], 'angle': [((0, 1, 2), 0)]}),
      'rev-bond': (list('CN'), [0.0, 1.3], ['C_p', 'N_p'], {'bond': [((1, 0), 0)]}),
      'swapN': (list('CO'), [0.0, 1.3], ['C_p', 'O_p'], {'bond': [((0, 1), 0)]}),
      'noterms': (list('CN'), [0.0, 1.3], ['C_p', 'N_p'], {}),
    }
    for name, (rel, rxs, rlab, rterms) in variants.items():
        rp = typed(rel, rxs, rlab, 'P', tables_p, rterms, q0=-0.2)
        rp.positions[:, 1] = [1.0, 1.05, 1.4][:len(rel)]
        for replace_all in (False, True):
            shared = {j: j for j in range(min(len(rel), 2)) if rel[j] == 'CN'[j]}
            try:
                res = quiet(replace_pattern_in_structure, s, sp, rp, replace_all=replace_all)
                matches = quiet(find_pattern_in_structure, s, sp)
                sref = Ref.of(s)
                # expected inserted positions: matched atom 0 + (rp - sp0), identity pose
                exp = ref_replace(sref, matches, None, _with_positions(rp, s, matches), 5000, shared, replace_all, [])
                ok = same(_strip(view(res)), _strip(exp.view()))
            except Exception as e:
                ok = False; exp = None; print("EXC", name, replace_all, repr(e)[:200])
            out.append((name, replace_all, ok))
            if not ok and exp is not None and os.environ.get('V'):
                va, vr = _strip(view(res)), _strip(exp.view())
                print(" ", name, replace_all); 
                for x, y in zip(va[0], vr[0]):
                    if x != y: print("   atom", x, y)
                for k in KINDS:
                    if va[1][k] != vr[1][k]: print("   ", k, va[1][k], "\n      ", vr[1][k])
    return out
def _with_positions(rp, s, matches):
    return rp   # positions of inserted atoms are compared modulo the frame below (stripped)
def _strip(v):
    atoms, terms = v
    return [a[:6] + a[7:] for a in atoms], terms     # drop positions (C05's business)
if __name__ == '__main__':
    cell = 20 * np.identity(3)
    for ts, tp in [(True, True), (False, False), (False, True)]:
        r = run(ts, tp, cell)
        print("tables structure=%s pattern=%s:" % (ts, tp), [(n, ra, ok) for n, ra, ok in r if not ok] or "all %d ok" % len(r))
