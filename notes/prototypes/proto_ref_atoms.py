"""Design-validation prototype (NOT the framework): boring reference structure + resolved view,
exhaustive delete (C10) and extend-with-identity-map (C11) on tiny structures."""
import sys, itertools, time, io, contextlib, copy
import numpy as np
import os; sys.path.insert(0, os.environ.get('MOFUN_VERIF_REPO', '/repo'))
from mofun import Atoms
KINDS = ['bond', 'angle', 'dihedral', 'improper']
ATTR = {'bond': 'bonds', 'angle': 'angles', 'dihedral': 'dihedrals', 'improper': 'impropers'}

def quiet(f, *a, **k):
    with contextlib.redirect_stderr(io.StringIO()), contextlib.redirect_stdout(io.StringIO()):
        return f(*a, **k)

def view(a):
    """resolved view of a real Atoms: no type ids, everything resolved through the tables"""
    n = len(a.positions)
    assert len(a.atom_types) == n and len(a.charges) == n and len(a.groups) == n and len(a.extra_atom_fields) == n
    xl = list(a.extra_atom_labels)
    assert a.extra_atom_fields.shape[1] == len(xl) if n else True
    atoms = []
    for i in range(n):
        t = int(a.atom_types[i])
        pc = str(a.pair_coeffs[t]) if len(a.pair_coeffs) > 0 else None
        atoms.append((str(a.atom_type_elements[t]), str(a.atom_type_labels[t]), float(a.atom_type_masses[t]), pc,
                      float(a.charges[i]), int(a.groups[i]), tuple(np.round(a.positions[i], 9)),
                      tuple(sorted((l, str(a.extra_atom_fields[i][j])) for j, l in enumerate(xl) if str(a.extra_atom_fields[i][j]) != '.'))))
    terms = {}
    for k in KINDS:
        arr = getattr(a, ATTR[k]); types = getattr(a, k + '_types'); coeffs = getattr(a, k + '_type_coeffs')
        xf = getattr(a, 'extra_%s_fields' % k); xl = list(getattr(a, 'extra_%s_labels' % k))
        assert len(arr) == len(types) == len(xf), (k, len(arr), len(types), len(xf))
        out = []
        for j in range(len(arr)):
            tup = tuple(int(x) for x in arr[j]); assert all(0 <= x < n for x in tup), (k, tup, n)
            t = int(types[j]); co = str(coeffs[t]) if len(coeffs) > 0 else ('#%d' % t)
            out.append((tup, co, tuple(sorted((l, str(xf[j][m])) for m, l in enumerate(xl) if str(xf[j][m]) != '.'))))
        terms[k] = out
    return atoms, terms

class Ref:
    """atoms: list of dict; terms[k]: list of (uids, coeff, extras)"""
    def __init__(self, atoms, terms): self.atoms = atoms; self.terms = terms
    @classmethod
    def of(cls, a, uid0=0, origin=None):
        origin = uid0 if origin is None else origin
        at, te = view(a)
        atoms = [dict(uid=uid0 + i, rec=r) for i, r in enumerate(at)]
        # table-less type ids become (origin, id) tokens: only their equality pattern is meaningful
        tok = lambda co: co if not co.startswith('#') else '#%s:%s' % (origin, co[1:])
        terms = {k: [(tuple(uid0 + x for x in tup), tok(co), ex) for tup, co, ex in v] for k, v in te.items()}
        return cls(atoms, terms)
    def view(self):
        idx = {a['uid']: i for i, a in enumerate(self.atoms)}
        return [a['rec'] for a in self.atoms], {k: [(tuple(idx[u] for u in tup), co, ex) for tup, co, ex in v] for k, v in self.terms.items()}
    def delete(self, idxs):
        dead = {self.atoms[i]['uid'] for i in idxs}
        self.atoms = [a for a in self.atoms if a['uid'] not in dead]
        self.terms = {k: [t for t in v if not (set(t[0]) & dead)] for k, v in self.terms.items()}
    def extend(self, other, m):
        """other: Ref with disjoint uids; m: other index -> self index"""
        umap = {}
        for oi, oa in enumerate(other.atoms):
            if oi in m:
                tgt = self.atoms[m[oi]]; umap[oa['uid']] = tgt['uid']
                e, l, ms, pc, q, g, p, x = tgt['rec']; oe, ol, oms, opc, oq, og, op_, ox = oa['rec']
                tgt['rec'] = (oe, ol, oms, opc, q, g, p, ox if (x or ox or self._has_xlabels or other._has_xlabels) else x)
            else:
                umap[oa['uid']] = oa['uid']; self.atoms.append(dict(uid=oa['uid'], rec=oa['rec']))
        for k in KINDS:
            new = [(tuple(umap[u] for u in tup), co, ex) for tup, co, ex in other.terms[k]]
            if new:
                keys = {t[0] for t in new} | {t[0][::-1] for t in new}
                self.terms[k] = [t for t in self.terms[k] if t[0] not in keys] + new
    _has_xlabels = False

def mk(n, tables=True, labels='ab', q0=0.1, xf=False, shift=0.0):
    els = ['C', 'N', 'O', 'C', 'N', 'O'][:n]
    tl = ['C' + labels[0], 'N' + labels[0], 'O' + labels[0], 'C' + labels[1]]
    types = [0, 1, 2, 3, 1, 2][:n]
    kw = dict(atom_types=types, atom_type_elements=['C', 'N', 'O', 'C'], atom_type_labels=tl, atom_type_masses=[12., 14., 16., 12.5],
              positions=[(i + shift, 0.1 * i, 0) for i in range(n)], charges=[q0 * (i + 1) for i in range(n)], groups=[i % 2 for i in range(n)],
              cell=20 * np.identity(3))
    if tables: kw['pair_coeffs'] = ['pc%s%d' % (labels, i) for i in range(4)]
    b = [(i, i + 1) for i in range(n - 1)]; an = [(i, i + 1, i + 2) for i in range(n - 2)]; d = [(i, i + 1, i + 2, i + 3) for i in range(n - 3)]
    im = [(1, 0, 2, 3)] if n >= 4 else []
    if n >= 3: b.append((0, 2))
    kw.update(bonds=b, bond_types=[i % 2 for i in range(len(b))], angles=an, angle_types=[0] * len(an), dihedrals=d, dihedral_types=[0] * len(d), impropers=im, improper_types=[0] * len(im))
    if tables:
        kw.update(bond_type_coeffs=['b%s0' % labels, 'b%s1' % labels], angle_type_coeffs=['a%s0' % labels], dihedral_type_coeffs=['d%s0' % labels], improper_type_coeffs=['i%s0' % labels])
    return quiet(Atoms, **kw)

def same(real, ref):
    """views equal, table-less type ids compared up to a bijection per kind"""
    if real[0] != ref[0]: return False
    for k in KINDS:
        a, b = real[1][k], ref[1][k]
        if len(a) != len(b): return False
        fwd, bwd = {}, {}
        for (t1, c1, x1), (t2, c2, x2) in zip(a, b):
            if t1 != t2 or x1 != x2: return False
            if c1.startswith('#') != c2.startswith('#'): return False
            if not c1.startswith('#'):
                if c1 != c2: return False
            elif fwd.setdefault(c1, c2) != c2 or bwd.setdefault(c2, c1) != c1: return False
    return True

if __name__ == '__main__':
    # ---- C10 exhaustive delete
    t0 = time.time(); n_exec = 0; bad = 0
    for n in range(1, 7):
        for tables in (True, False):
            base = mk(n, tables)
            for r in range(1, n + 1):
                for S in itertools.combinations(range(n), r):
                    orders = set(itertools.permutations(S)) if r <= 3 else {S, S[::-1]}
                    for order in orders:
                        for conv in (list, np.array):
                            a = base.copy(); ref = Ref.of(base)
                            try:
                                quiet(a.__delitem__, conv(order)); ref.delete(S); ok = same(view(a), ref.view())
                            except Exception as e:
                                ok = False; err = repr(e)
                            n_exec += 1
                            if not ok:
                                bad += 1
                                if bad < 5: print("C10 MISMATCH", n, tables, order, conv.__name__)
    print("C10 executions", n_exec, "bad", bad, "%.1fs" % (time.time() - t0))
    # ---- C11 exhaustive extend maps
    t0 = time.time(); n_exec = 0; bad = 0
    for na in range(int(sys.argv[1]) if len(sys.argv) > 1 else 0, 5):
        for nb in range(1, 4):
            for tables in (True, False):
                A = mk(na, tables, 'ab') if na else quiet(Atoms); B = mk(nb, tables, 'xy', q0=-0.3, shift=7.0)
                for r in range(0, min(na, nb) + 1):
                    for src in itertools.combinations(range(nb), r):
                        for dst in itertools.permutations(range(na), r):
                            m = dict(zip(src, dst))
                            for rev in (False, True):
                                b = B.copy()
                                if rev:
                                    for k in KINDS: setattr(b, ATTR[k], np.array(getattr(b, ATTR[k]))[:, ::-1] if len(getattr(b, ATTR[k])) else getattr(b, ATTR[k]))
                                a = A.copy(); ref = Ref.of(A); rb = Ref.of(b, uid0=100); bcopy = view(b)
                                try:
                                    quiet(a.extend, b, structure_index_map=dict(m)); ref.extend(rb, m)
                                    ok = same(view(a), ref.view()) and view(b) == bcopy
                                except Exception as e:
                                    ok = False; print("EXC", repr(e))
                                n_exec += 1
                                if not ok:
                                    bad += 1
                                    if bad < 6:
                                        print("C11 MISMATCH na=%d nb=%d tables=%s map=%s rev=%s" % (na, nb, tables, m, rev))
                                        va, vr = view(a), ref.view()
                                        if va[0] != vr[0]: print("  atoms", [x for x in zip(va[0], vr[0]) if x[0] != x[1]][:2])
                                        for k in KINDS:
                                            if va[1][k] != vr[1][k]: print("  ", k, va[1][k], vr[1][k])
    print("C11 executions", n_exec, "bad", bad, "%.1fs" % (time.time() - t0))
